#!/usr/bin/env python3
"""Regenerates /verif/MANIFEST.json from the table below."""
import json, os

BASE = "bounded symbolic execution of the real code's go/ssa form; branch feasibility and every assertion decided by z3 (SMT, QF_BV) over all inputs within the stated bounds; counterexamples replayed natively"

CHECKS = {
 "C01": dict(
   text="Bounded symbolic model checking of the real cafs write/read code (Write, pFlush, flush, Flush, Put, Read, ReadAt, WriteTo, leafFreelist, golang-lru from source): for every leaf size 2..4 B, every content length 0..2 leaves+1 (thorough: 3 leaves+1), every content byte (symbolic), every source chunking (one big Write or 2 solver-sized chunks), every read buffer size 1..2 leaves, every ReadAt offset/length incl. past EOF, short reads / EOF-with-data from the store, the solver shows written size, stored layout and returned bytes are exact. Leaf sizes are below cafs.New's 64 B..5 MiB guard because byte buffers are cell vectors of concrete length; the code is parametric in the leaf size.",
   note="Trusted: go/ssa, the gosmt interpreter (natively cross-validated on sampled paths every run), BLAKE2b as injective UF, in-memory object-store stub, one cooperative schedule for the flush goroutines. Outside: real leaf sizes (64 B..5 MiB), >3 leaves, cache eviction pressure, prefetch depth >1, leafTruncation.",
   design="DESIGN.md §6 C01"),
 "C04": dict(
   text="Bounded symbolic model checking of bundle upload followed by download through the real code end to end (implUpload/uploadBundle/uploadBundleFiles/uploadBundleFile/skipFile/uploadBundleEntriesFileList/uploadBundleDescriptor, the real cafs writer and reader with hash verification, implPublish/unpackBundleDescriptor/unpackBundleFileList/unpackDataFiles/downloadBundleEntries, PublishFile/unpackDataFile): for every subset of a tree {a (2 symbolic bytes), d/b (1 symbolic byte), e (empty), .datamon/x (generated), d/.datamon (user file)} and 1..3 entries per index file, the download reproduces exactly the eligible files byte for byte, the listed entries match them one-to-one with the right sizes, the number of index files is ceil(files/entries-per-file) and generated paths are never uploaded; for every explicit key list over three files (with an optional missing key and an optional generated path) exactly the listed files are uploaded, and a filtered download (every predicate over the names) or a single-file download yields exactly the selected subset. Thorough adds a 70-byte file spanning two leaves.",
   note="Trusted: go/ssa, gosmt interpreter (natively cross-validated), BLAKE2b as an injective uninterpreted function, yaml.v2 as round-tripping opaque documents, ksuid.NewRandom as fresh ids, in-memory stores, one cooperative schedule of the upload/download goroutines. Outside: trees of more than 5 files, leaf sizes other than 64, names with unicode/spaces (opaque to this code), concurrency above 2, arrival-order permutations of index files and malformed index files.",
   design="DESIGN.md §6 C04"),
 "C05": dict(
   text="Bounded symbolic model checking of the real diff and update kernels: diffBundles over two bundles of 0..3 entries each (quick: at most 5 in total) with symbolic 1-byte names (unique per bundle) and symbolic 1-byte hashes - every listed path is justified (added = only in the new bundle, deleted = only in the old, changed = in both with different hashes) with the right entries attached, each path is listed at most once, and every path whose presence or hash differs is listed; downloadBundleEntries in update mode, driven through goroutines and channels exactly as unpackDataFiles drives it, for every combination of three files being absent / present with one of 2 (thorough 3) contents on either side and download concurrency 1..2 - afterwards the local copy holds exactly the target bundle's files with the target's contents and nothing else.",
   note="Trusted: go/ssa, gosmt interpreter (natively cross-validated), the cooperative goroutine/channel model (one schedule), stub content store (objects named by key; byte-level cafs behaviour is C01), in-memory consumable store. Outside: the metadata rewrite at the end of Update (cafs.New + PublishMetadata + YAML), more than 3 files, PopulateFiles.",
   design="DESIGN.md §6 C05"),
 "C20": dict(
   text="Bounded symbolic model checking of the metadata path builders and parser, the consumable-store path inverse, generated-file detection and the name validators (real code of pkg/model; strings.SplitN, path.Join, strconv, ksuid.Parse, unicode tables from source; regexp literals as an unrolled NFA of the compiled program): for every repo/label/context/split name of 1..3 arbitrary bytes without '/', every descriptor state, file-list indices at the boundary values up to 2^64-1, parse(build(x)) = x field by field for all 8 path kinds; two paths built by any two of 9 builders from names of 1..2 bytes are equal only if same kind and same names; IsGeneratedFile(s) equals the stated spec for every byte string of length 0..16; ValidateRepo/ValidateLabel never panic and accept a name iff every rune is in the documented alphabet, for all ASCII names of 1..3 bytes and all names made of one 2-byte rune (U+0080..U+07FF) alone or next to an ASCII byte. Partial: descriptor YAML round trips are not decided.",
   note="Trusted: go/ssa, gosmt interpreter (natively cross-validated), Go's regexp/syntax compiler for the NFA program, the Unicode 15 category data written out as the alphabet table. Outside: descriptor YAML round trip (yaml.v2 is reflection-driven third-party code), names longer than 3 bytes, runes from U+0800, symbolic ksuids (concrete well-formed ids are used), ValidateContext.",
   design="DESIGN.md §6 C20"),
 "C22": dict(
   text="Bounded symbolic model checking of trackWrite/getRangeToRead with go-immutable-radix run from source: all sequences of 3 (thorough 4) writes with offset 0..200, length 1..55 and all probe offsets/lengths, plus one inductive step from an arbitrary valid pre-state of up to 3 disjoint ranges (covers histories of any length within that footprint); oracle = union of written ranges; also that the marker representation invariant is preserved.",
   note="Trusted: go/ssa, gosmt interpreter (natively cross-validated), sync.Mutex model. Outside: offsets >= 256 (multi-byte key divergence in the radix tree), negative offsets, zero-length writes, more than 3 pre-existing ranges in the step harness.",
   design="DESIGN.md §6 C22"),
 "C06": dict(
   text="Bounded symbolic model checking of crash and fault points of a bundle upload on the real code (implUpload/uploadBundle with the real cafs writer, then the real observers ListBundles, GetLatestBundle, DownloadMetadata (implPublishMetadata), implPublish, Label.DownloadDescriptor): in a repository holding a committed bundle with a label (both produced by the real code), a second upload of two files is interrupted at every one of its mutating store calls (metadata, label and blob stores together), with the call landing or not before the process dies (fail-stop stores), or hit by a transient fault on that one call - afterwards every previously committed metadata object, label and blob is byte-identical, listing works and shows the old bundle, the new bundle is listed / resolved as latest / fetchable iff its descriptor and all its file lists were written, the descriptor never exists without all file lists, the old bundle still downloads with its content, the label still resolves, every write under bundles/ is create-if-absent, an upload hit by a fault reports failure, and a retried upload succeeds and becomes the latest.",
   note="Trusted: go/ssa, gosmt interpreter (natively cross-validated), fail-stop crash model with atomic object writes, BLAKE2b as injective UF, yaml.v2 as round-tripping opaque documents, ksuid ids increasing across seconds, one cooperative schedule of the upload goroutines. Also a diamond commit (real merge and index upload) interrupted the same way at each of its mutating store calls, with the same observers. Outside: crash points of label writes (a single object write), partial object writes, explicit delete/squash/delete-files.",
   design="DESIGN.md §6 C06"),
 "C07": dict(
   text="Bounded symbolic model checking of the real listing pipelines end to end (ListRepos, ListBundles, ListBundlesApply, ListLabels, ListLabelsApply, ListDiamonds, ListSplits with fetchKeys, basenameKeyFilter, mergeKeys, distributeKeys, fetch*Batch, get*Async, the descriptor downloads and sort.Sort on the model slices) over an in-memory object store: repositories {a, a-b, ab, b} in every combination; in repo r (next to r2, whose name extends it) three bundles each absent / committed / leftover of an interrupted upload, three labels in every combination, two diamonds each absent / running / running+done, the first with two splits (one named split-2) each absent / running / running+done and each with two split file lists - for every page size from 1 to the number of keys + 1 and list concurrency 1..2 the result is exactly the existing objects of that kind and repository, each once, a bundle without descriptor is skipped, diamonds and splits come back in their latest state, bundles in key order. Known findings C07-F2, C07-F3 (order of labels / prefix-named repositories).",
   note="Trusted: go/ssa, gosmt interpreter (natively cross-validated), cooperative goroutine/channel model (one schedule), yaml.v2 as round-tripping opaque documents, in-memory store with GCS listing semantics. Outside: more objects than the stated universe, page sizes above it, concurrency above 2, versioned label listing, interruption through the done channel.",
   design="DESIGN.md §6 C07"),
 "C08": dict(
   text="Bounded symbolic model checking of the real label code (Label.UploadDescriptor, Label.DownloadDescriptor, DeleteLabel, ListLabels with its key scan and getLabelAsync, GetArchivePathToLabel / GetArchivePathComponents) over in-memory stores: every history of 2 (thorough 3) operations, each an assignment or deletion over labels {v1, v1-rc} x repositories {r, r2} x bundles {B1, B2}, with Label values reused between operations - afterwards getting each label returns the bundle it was last set to or not-found, listing each repository returns exactly its live labels with their last bundle, deleting succeeds iff the label exists, and every operation leaves the metadata store (bundles, repos) and every other label object byte-identical; and for every label name of 1..2 arbitrary bytes, a name that UploadDescriptor accepts can afterwards be resolved and listed under that name (known finding C08-F1 for names containing '/').",
   note="Trusted: go/ssa, gosmt interpreter (natively cross-validated), yaml.v2 as round-tripping opaque documents, in-memory stores, one cooperative schedule of the listing goroutines. Outside: versioned label history, histories longer than 3, names longer than 2 bytes, contributor validation, the CLI layer.",
   design="DESIGN.md §6 C08"),
 "C09": dict(
   text="Bounded symbolic model checking of the real repository operations over in-memory stores: CreateRepo by two concurrent creators of the same name, every interleaving at store-call granularity (the solver decides before each store operation whether the other creator runs first), with and without a pre-existing repository - exactly one creator succeeds (none if the repository exists), exactly one descriptor write lands and it is the winner's; DeleteRepo of r next to r2 (whose name extends r's) for every combination of a two-file-list bundle, an empty bundle and two labels, under both store behaviours for deleting a missing key - it terminates, nothing of r remains under repos/, bundles/ or labels/ and every object of r2 is byte-identical; RenameRepo over the same universe - all bundle descriptors (id, count, message), file lists (byte-identical) and labels appear under the new name, the old repository is gone, r2 is untouched, and with a read fault on a file list the call returns an error (no crash) leaving the old repository intact; DeleteEntriesFromRepo for every subset of {a, c, zz} - every file list holds exactly its remaining entries in order, unaffected lists are not rewritten, descriptors, labels and other repositories are untouched.",
   note="Trusted: go/ssa, gosmt interpreter (natively cross-validated), yaml.v2 as round-tripping opaque documents, in-memory stores (put-atomic), one cooperative schedule inside each listing. Outside: more than two creators, more than 2 bundles / 3 file lists, faults other than the file-list read in rename, leftovers of interrupted uploads under a deleted repository.",
   design="DESIGN.md §6 C09"),
 "C10": dict(
   text="Bounded symbolic model checking of the real squash (RepoSquash with its keys-only ListBundles, ListLabels, semver.ParseTolerant from source, DeleteBundle, ListBundlesApply, DeleteLabel) over in-memory stores: three (thorough four) bundle ids each absent / committed / leftover of an interrupted upload, a semver-like and a plain label each absent or pointing at any committed bundle, retain-N 1..2 (thorough 1..3), retain-tags none / all / semver, next to a repository r2 whose name extends r's - afterwards the committed bundles left are exactly the N most recent committed ones plus the retained label targets, with byte-identical descriptors and file lists; every other committed bundle is gone with its file lists; labels of kept bundles are intact and labels of removed bundles are removed; the most recent committed bundle survives whatever leftovers exist; r2 and all repository descriptors are untouched; a listing afterwards shows exactly the kept bundles.",
   note="Trusted: go/ssa, gosmt interpreter (natively cross-validated), yaml.v2 as round-tripping opaque documents, in-memory stores, one cooperative schedule inside each listing. Outside: more than 4 bundles / 2 labels, store faults during squash, content download of the kept bundles (C04), labels pointing at leftovers.",
   design="DESIGN.md §6 C10"),
 "C11": dict(
   text="Bounded symbolic model checking of the real diamond merge (Diamond.mergeSplits with its merger goroutine, fileIndex.Download/unpack/downloadAll/downloadIndex, mergeEntryToFilePacked, GenerateConflictPath/GenerateCheckpointPath, go-immutable-radix from source) against a reference written from the statement: 2 splits x 2 paths with symbolic presence, symbolic 1-byte content hashes and symbolic distinct upload seconds, and 3 splits x 1 path (split k uploaded at second k), in all 4 conflict modes and for every arrival order of the split index files - the main tree holds exactly the uploaded paths with the latest version of each, conflict/checkpoint mode files every other distinct version under .conflicts|.checkpoints/<uploading split>/<path> with that split's content and nothing else, ignore mode adds nothing, forbid mode fails iff two splits disagree on a path, and the HasConflicts/HasCheckpoints flags match. Thorough adds 3 splits x 2 paths with one index file per (split, path). Known finding C11-F1.",
   note="Trusted: go/ssa, gosmt interpreter (natively cross-validated), cooperative goroutine/channel model with file-list download concurrency 1 (arrival order = the solver-chosen permutation), yaml.v2 as round-tripping opaque documents, in-memory metadata store. Outside: more than 3 splits, equal upload times, the single-split == plain upload clause, fileIndex.pack's time stamping, implCommit around the merge.",
   design="DESIGN.md §6 C11"),
 "C12": dict(
   text="Bounded symbolic model checking of the diamond protocol on the real code, driven as the CLI drives it (CreateDiamond; NewSplit + CreateSplit + Split.Upload with the real cafs writer; GetDiamond + NewDiamond(clone) + Commit with the real merge and index upload; Cancel): every sequential program of 3 (thorough 4) operations over {add split s1 (files v1), add s1 again (files v2), add split s2, commit, cancel} is checked step by step against the state machine of the statement - commits, cancels and new splits are refused once the diamond is done or canceled, a completed split cannot be rerun, commit without a completed split is refused, a refused operation writes nothing, every diamond / split / bundle metadata object is written create-if-absent, the diamond yields a bundle iff a commit succeeded, exactly one, holding exactly the files of the completed splits (with the conflict entry for the path both uploaded) and the diamond descriptor records it; a split upload or a commit dying at every one of its mutating store calls (landed or not, fail-stop stores) followed by a retry - an interrupted split can be rerun and the bundle then holds the content of the run recorded as completing it, a completed one cannot, at most one bundle results (known finding C12-F1 for the window between bundle.yaml and diamond-done); two concurrent terminal operations (commit/commit, commit/cancel, cancel/cancel) under every interleaving with a preemption point before each mutating metadata store call and at most 2 (thorough 3) context switches - at most one cancel succeeds, a successful terminal operation leaves the diamond terminated (known findings C12-F1, C12-F2 for the check-then-write windows).",
   note="Trusted: go/ssa, gosmt interpreter (natively cross-validated; interleaving counterexamples replay under a native baton that follows the same schedule), BLAKE2b as injective UF, yaml.v2 as round-tripping opaque documents, ksuid ids fresh and increasing across seconds, fail-stop crash model with atomic object writes. Outside: more than 2 splits / 4 operations, concurrent split uploads (their blob writes run in worker goroutines), preemption between two reads, more than 3 context switches.",
   design="DESIGN.md §6 C12"),
 "C13": dict(
   text="Bounded symbolic model checking of the purge safety kernels on the real code: checkAndDeleteKey as one step from an arbitrary key state (indexed or not, KV error, blob update time vs index time symbolic, 0..3 transient GetAttr failures, dry-run) - a blob is deleted only if unindexed and its update time was actually read and is not after the index time; the uploader's final loop + chunkUploader + dbReader with a chunk write that fails after consuming any number of bytes and is retried - every key marked uploaded is in a stored chunk whenever the uploader reports success; bundleKeys from a KV pre-state holding a root with or without its leaves - every key of a scanned entry ends up indexed (known finding C13-F3).",
   note="Trusted: go/ssa, gosmt interpreter (natively cross-validated), in-memory store/KV models, backoff.Retry = at most 3 attempts, yaml.v2 as round-tripping opaque documents, tickers never fire. Outside: the PurgeBuildReverseIndex/PurgeDeleteUnused drivers as a whole (errgroup fan-out over repos, monitors), pebble/badger themselves, uploads racing with the two phases, list-page faults.",
   design="DESIGN.md §6 C13"),
 "C14": dict(
   text="Bounded symbolic model checking of the fault-free purge kernels on the real code: the index chunk byte stream (dbReader.Read with every buffer size 1..12, up to 3 keys, marked/unmarked, maxKeys 1..3) is exactly timestamp line + unmarked keys and parses back (loadChunk) to the same key set and time; the uploader tail partitions the unmarked keys into chunks of <= chunkSize in order and stops after the first empty chunk; checkAndDeleteKey deletes iff not indexed and not newer than the index and not dry-run; scanBlob examines every blob key exactly once for every page size 1..5 and deletes exactly the unindexed ones; PurgeLock is create-if-absent unless forced, and of two jobs taking the lock concurrently (every interleaving at store-call granularity) exactly one acquires a free lock and none a held one.",
   note="Trusted: as C13. Outside: chunk sizes / key counts beyond the bounds, more than two concurrent lock takers, extra contexts, the drivers as a whole.",
   design="DESIGN.md §6 C14"),
 "C18": dict(
   text="Bounded symbolic model checking of the mutable mount's inode allocator (allocINode/freeINode, real code): one inductive step (alloc or free of a live id) from an arbitrary valid allocator state (highest inode first..first+6, free list of <= 3 distinct ids) preserves the representation invariant and changes the live set by exactly the allocated / freed id, and two allocations in a row never return the same or an in-use id. Partial: the namespace operations (mkdir/create/rename/unlink/rmdir/lookup/forget) and commit are not yet covered.",
   note="Trusted: go/ssa, gosmt interpreter (natively cross-validated), sync.Mutex model. Outside: every file-system operation other than inode allocation; free lists longer than 3.",
   design="DESIGN.md §6 C18"),
}

NOT_APPLICABLE = {
 "C15": "data races and many-goroutine scheduling are properties of the Go memory model and runtime scheduler; a sequentialised SSA->SMT encoding has no happens-before relation and explores interleavings only at store-call granularity with a small context-switch bound",
}

PENDING_REASON = "not yet claimed: harness not registered in this revision (bounded symbolic execution harness under construction; see DESIGN.md §6)"

def main():
    root = os.path.dirname(os.path.dirname(os.path.abspath(__file__)))
    props = [json.loads(l)["id"] for l in open(os.path.join(root, "properties.jsonl"))]
    checks = []
    for pid in props:
        if pid in CHECKS:
            c = CHECKS[pid]
            checks.append({
                "property_id": pid,
                "quick_cmd": f"./check {pid} --tier quick",
                "thorough_cmd": f"./check {pid} --tier thorough",
                "evidence_file": f"evidence/{pid}.json",
                "replay_cmd_template": f"./check replay {pid} {{path}}",
                "engine": "gosmt",
                "level_claimed": {"category": "model_checking", "text": c["text"], "design_ref": c["design"]},
                "level_note": c["note"],
                "technique": BASE,
            })
    na = []
    for pid in props:
        if pid in CHECKS:
            continue
        na.append({"property_id": pid, "reason": NOT_APPLICABLE.get(pid, PENDING_REASON)})
    m = {
        "version": 1,
        "setup_cmd": "export GOFLAGS=-mod=mod GOPROXY=off GOSUMDB=off GOTOOLCHAIN=local; mkdir -p bin && (cd engine && go build -o ../bin/gosmt ./cmd/gosmt) && (cd /repo && go build ./... )",
        "hooks": {
            "guard": "verif",
            "enable": "none needed: harnesses and stubs are injected with go/packages Overlay and `go test -overlay`; nothing is compiled into /repo",
            "baseline_off_cmd": "cd /repo && go test -mod=mod -json -vet=off -count=1 -timeout 25m ./...",
            "source_commits": [],
            "add_only": True,
        },
        "engines": [{
            "name": "gosmt", "path": "engine",
            "serves_properties": sorted(CHECKS),
            "kind_free_text": "symbolic interpreter for go/ssa (fork of x/tools go/ssa/interp) with bit-vector terms, re-execution based path exploration, z3 over a pipe, native replay through go test -overlay",
        }],
        "checks": checks,
        "not_applicable": na,
        "notes": "exit 0 = property held on everything explored; exit 1 + VIOLATION line = natively reproduced counterexample; exit 2 = inconclusive (unknown/unsupported/encoding mismatch/stale harness), never reported as a pass. Known findings: known_findings.json.",
    }
    json.dump(m, open(os.path.join(root, "MANIFEST.json"), "w"), indent=1)
    print("wrote MANIFEST.json with", len(checks), "checks")

if __name__ == "__main__":
    main()
