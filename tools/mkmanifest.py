#!/usr/bin/env python3
"""Regenerates /verif/MANIFEST.json from the table below."""
import json, os

BASE = "bounded symbolic execution of the real code's go/ssa form; branch feasibility and every assertion decided by z3 (SMT, QF_BV) over all inputs within the stated bounds; counterexamples replayed natively"

CHECKS = {
 "C01": dict(
   text="Bounded symbolic model checking of the real cafs write/read code (Write, pFlush, flush, Flush, Put, Read, ReadAt, WriteTo, leafFreelist, golang-lru from source): for every leaf size 2..4 B, every content length 0..2 leaves+1 (thorough: 3 leaves+1), every content byte (symbolic), every source chunking (one big Write or 2 solver-sized chunks), every read buffer size 1..2 leaves, every ReadAt offset/length incl. past EOF, short reads / EOF-with-data from the store, the solver shows written size, stored layout and returned bytes are exact. Leaf sizes are below cafs.New's 64 B..5 MiB guard because byte buffers are cell vectors of concrete length; the code is parametric in the leaf size.",
   note="Trusted: go/ssa, the gosmt interpreter (natively cross-validated on sampled paths every run), BLAKE2b as injective UF, in-memory object-store stub, one cooperative schedule for the flush goroutines. Outside: real leaf sizes (64 B..5 MiB), >3 leaves, cache eviction pressure, prefetch depth >1, leafTruncation.",
   design="DESIGN.md §6 C01"),
 "C22": dict(
   text="Bounded symbolic model checking of trackWrite/getRangeToRead with go-immutable-radix run from source: all sequences of 3 (thorough 4) writes with offset 0..200, length 1..55 and all probe offsets/lengths, plus one inductive step from an arbitrary valid pre-state of up to 3 disjoint ranges (covers histories of any length within that footprint); oracle = union of written ranges; also that the marker representation invariant is preserved.",
   note="Trusted: go/ssa, gosmt interpreter (natively cross-validated), sync.Mutex model. Outside: offsets >= 256 (multi-byte key divergence in the radix tree), negative offsets, zero-length writes, more than 3 pre-existing ranges in the step harness.",
   design="DESIGN.md §6 C22"),
}

NOT_APPLICABLE = {
 "C15": "data races and many-goroutine scheduling are properties of the Go memory model and runtime scheduler; a sequentialised SSA->SMT encoding has no happens-before relation and explores interleavings only at store-call granularity with a small context-switch bound",
}

PENDING_REASON = "not yet claimed: harness not registered in this revision (bounded symbolic execution harness under construction; see DESIGN.md §6)"

def main():
    root = os.path.dirname(os.path.dirname(os.path.abspath(__file__)))
    props = [json.loads(l)["id"] for l in open(os.path.join(root, "properties.jsonl"))]
    checks = []
    for pid in props:
        if pid in CHECKS:
            c = CHECKS[pid]
            checks.append({
                "property_id": pid,
                "quick_cmd": f"./check {pid} --tier quick",
                "thorough_cmd": f"./check {pid} --tier thorough",
                "evidence_file": f"evidence/{pid}.json",
                "replay_cmd_template": f"./check replay {pid} {{path}}",
                "engine": "gosmt",
                "level_claimed": {"category": "model_checking", "text": c["text"], "design_ref": c["design"]},
                "level_note": c["note"],
                "technique": BASE,
            })
    na = []
    for pid in props:
        if pid in CHECKS:
            continue
        na.append({"property_id": pid, "reason": NOT_APPLICABLE.get(pid, PENDING_REASON)})
    m = {
        "version": 1,
        "setup_cmd": "export GOFLAGS=-mod=mod GOPROXY=off GOSUMDB=off GOTOOLCHAIN=local; mkdir -p bin && (cd engine && go build -o ../bin/gosmt ./cmd/gosmt) && (cd /repo && go build ./... )",
        "hooks": {
            "guard": "verif",
            "enable": "none needed: harnesses and stubs are injected with go/packages Overlay and `go test -overlay`; nothing is compiled into /repo",
            "baseline_off_cmd": "cd /repo && go test -mod=mod -json -vet=off -count=1 -timeout 25m ./...",
            "source_commits": [],
            "add_only": True,
        },
        "engines": [{
            "name": "gosmt", "path": "engine",
            "serves_properties": sorted(CHECKS),
            "kind_free_text": "symbolic interpreter for go/ssa (fork of x/tools go/ssa/interp) with bit-vector terms, re-execution based path exploration, z3 over a pipe, native replay through go test -overlay",
        }],
        "checks": checks,
        "not_applicable": na,
        "notes": "exit 0 = property held on everything explored; exit 1 + VIOLATION line = natively reproduced counterexample; exit 2 = inconclusive (unknown/unsupported/encoding mismatch/stale harness), never reported as a pass. Known findings: known_findings.json.",
    }
    json.dump(m, open(os.path.join(root, "MANIFEST.json"), "w"), indent=1)
    print("wrote MANIFEST.json with", len(checks), "checks")

if __name__ == "__main__":
    main()
