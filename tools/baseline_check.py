#!/usr/bin/env python3
"""Runs the pinned test command on /repo (guard tag off) and checks that every test of BASELINE.stable_pass passes."""
import json, subprocess, sys, os
base = json.load(open('/root/.vp/BASELINE.json'))
want = set(base['stable_pass'])
env = dict(os.environ, GOFLAGS='-mod=mod', GOPROXY='off', GOSUMDB='off', GOTOOLCHAIN='local')
p = subprocess.run('cd /repo && go test -mod=mod -json -vet=off -count=1 -timeout 25m ./...', shell=True, env=env, capture_output=True, text=True)
passed = set()
for line in p.stdout.splitlines():
    try:
        ev = json.loads(line)
    except Exception:
        continue
    if ev.get('Action') == 'pass' and ev.get('Test'):
        passed.add(ev['Package'] + '::' + ev['Test'])
missing = sorted(want - passed)
print('baseline tests: %d, passing now: %d, missing: %d' % (len(want), len(want & passed), len(missing)))
for m in missing[:30]:
    print('  MISSING', m)
sys.exit(1 if missing else 0)
