#!/bin/bash
# usage: tools/try_mutant.sh <patch.diff> <ID> [tier]   -- applies the patch to /repo, runs the check, restores /repo
set -u
P="$1"; ID="$2"; TIER="${3:-quick}"
cd /verif
if [ -n "$(git -C /repo status --porcelain --untracked-files=no)" ]; then echo "/repo not clean"; exit 3; fi
git -C /repo apply "$P" || { echo "patch does not apply"; exit 3; }
mkdir -p /tmp/mut_ev && cp evidence/$ID.json /tmp/mut_ev/$ID.json 2>/dev/null
timeout 3000 ./check $ID --tier $TIER > /tmp/mut_out_$ID.txt 2>&1; rc=$?
git -C /repo checkout -- .
cp /tmp/mut_ev/$ID.json evidence/$ID.json 2>/dev/null
grep -E "VIOLATION|KNOWN-FINDING|INCONCLUSIVE|^OK|HARNESS-STALE" /tmp/mut_out_$ID.txt | cut -c1-400 | head -8
echo "exit=$rc"
