#!/bin/bash
# usage: tools/try_mutant.sh <patch.diff> <ID> [tier]
# Runs the check for <ID> against a scratch worktree of /repo HEAD with the patch applied
# (gosmt -repo <worktree> -scratch <dir>), so /repo and /verif/evidence stay untouched and
# several mutants can be tried while development goes on.
set -u
P="$1"; ID="$2"; TIER="${3:-quick}"
export GOFLAGS=-mod=mod GOPROXY=off GOSUMDB=off GOTOOLCHAIN=local
N=$(basename $(dirname "$P"))_$$
WT=/tmp/wt/mut_${ID}_$N
git -C /repo worktree add -q --detach $WT HEAD || exit 3
git -C $WT apply "$P" || { echo "patch does not apply"; git -C /repo worktree remove --force $WT; exit 3; }
SC=/tmp/wt/scratch_${ID}_$N; mkdir -p $SC
cd /verif
timeout 3000 bin/gosmt -id $ID -tier $TIER -repo $WT -scratch $SC > $SC/log.txt 2>&1; rc=$?
grep -E "VIOLATION|KNOWN-FINDING|INCONCLUSIVE|^OK|HARNESS-STALE" $SC/log.txt | cut -c1-300 | head -6
echo "exit=$rc"
git -C /repo worktree remove --force $WT; rm -rf $SC
