#!/bin/bash
# usage: tools/sweep_seeded.sh <shard> <nshards> <outfile> [glob under seeded/, default *]
# Runs every seeded change (shard k of n) against the quick check of its property (and of the other
# properties listed in its meta.json under "also_check") in scratch worktrees; appends "sid<TAB>check<TAB>result".
cd /verif
k=$1; n=$2; out=$3; pat=${4:-*}
i=0
for d in seeded/$pat/; do
  sid=$(basename $d)
  [ -f $d/patch.diff ] || continue
  i=$((i+1)); [ $((i % n)) -eq $k ] || continue
  prop=$(python3 -c "import json;m=json.load(open('$d/meta.json'));print(' '.join([m['breaks_property']]+m.get('also_check',[])))")
  for id in $prop; do
    r=$(tools/try_mutant.sh /verif/$d/patch.diff $id 2>&1 | grep -v KNOWN-FINDING | grep -E "VIOLATION|^OK|INCONCLUSIVE|exit=|patch does not" | head -3 | cut -c1-200 | tr '\n\t' '  ')
    printf "%s\t%s\t%s\n" "$sid" "$id" "$r" >> $out
  done
done
