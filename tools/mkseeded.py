#!/usr/bin/env python3
"""Generates seeded/README.md from seeded/*/meta.json and the last sweep (seeded/sweep.tsv)."""
import json, glob, os, re
res = {}
if os.path.exists('/verif/seeded/sweep.tsv'):
    for line in open('/verif/seeded/sweep.tsv'):
        p = line.rstrip('\n').split('\t')
        if len(p) >= 3:
            res.setdefault(p[0], {})[p[1]] = p[2]  # a later row for the same change and check replaces an earlier one
def verdict(r):
    if 'VIOLATION' in r:
        m = re.search(r'\((assert|panic|deadlock|nontermination|fatal) (\S+)', r)
        return 'caught' + (f' ({m.group(2)})' if m else '')
    if 'patch does not' in r:
        return 'patch no longer applies'
    if 'INCONCLUSIVE' in r:
        return 'inconclusive (exit 2)'
    if r.strip().startswith('OK') or ' OK ' in r:
        return 'not detected'
    return 'no result'
rows = []
tot = det = 0
for d in sorted(glob.glob('/verif/seeded/*/meta.json')):
    m = json.load(open(d))
    sid = m['id']
    rs = res.get(sid, {})
    vs = [f'{c}: {verdict(r)}' for c, r in rs.items()]
    caught = any('caught' in v for v in vs)
    tot += 1; det += caught
    if 'history' not in m and m.get('check_result') and not re.match(r'C\d\d: ', m['check_result']):
        m['history'] = m['check_result']  # how the checks fared when the change was first tried
    m['check_result'] = '; '.join(vs) if vs else m.get('check_result', '')
    m['ran'] = 'tools/sweep_seeded.sh (tools/try_mutant.sh: the quick check against a scratch worktree of /repo HEAD with the patch applied)'
    json.dump(m, open(d, 'w'), indent=1)
    needs = m.get('needs_to_manifest', '').replace('|', '/').replace('\n', ' ')
    if len(needs) > 260: needs = needs[:260].rsplit(' ', 1)[0] + ' ...'
    what = m.get('what', '')
    hist = m.get('history', '').replace('|', '/')
    rows.append(f"| {sid} | {what + ': ' if what else ''}{needs} | {m['check_result']}{' — first try: ' + hist if hist else ''} |")
hdr = f"""# Seeded changes

Each directory holds `patch.diff` (applies to /repo at the commit the checks are registered against:
`git -C /repo apply seeded/<id>/patch.diff`, undo with `git -C /repo checkout -- .`), `demo_test.go` (fails with the
patch, passes without; see `meta.json` for where to copy it and how to run it) and `meta.json`.
All were written by sub-agents that saw only the property text and a scratch worktree (round 2, `R2-...`: also the
list of places round 1 had changed), re-confirmed in a scratch worktree (`tools/confirm_all.py`) and run against the
registered quick checks (`tools/sweep_seeded.sh`, results in `sweep.tsv`).

Last sweep: {det} of {tot} changes end in a `VIOLATION` of a registered quick check; the others are explained in
DESIGN.md §9.

| id | what it needs to manifest | result of the last sweep |
|---|---|---|
"""
open('/verif/seeded/README.md', 'w').write(hdr + '\n'.join(rows) + '\n')
print(det, 'of', tot)
