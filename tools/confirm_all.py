#!/usr/bin/env python3
"""Confirms seeded mutants in a scratch worktree of /repo HEAD:
demo passes on the pristine tree; with the patch the repo builds and the demo fails.
usage: confirm_all.py <out.json> <ID:dir:pkg:run> ..."""
import json, os, subprocess, sys, glob, shutil
ENV = dict(os.environ, GOFLAGS='-mod=mod', GOPROXY='off', GOSUMDB='off', GOTOOLCHAIN='local')
WT = '/tmp/wt/confirm'
def sh(cmd, timeout=1500):
    try:
        p = subprocess.run(cmd, shell=True, env=ENV, capture_output=True, text=True, timeout=timeout)
        return p.returncode, (p.stdout + p.stderr)[-1500:]
    except subprocess.TimeoutExpired:
        return 124, 'timeout'
def reset():
    if not os.path.isdir(WT):
        sh(f'git -C /repo worktree add -q --detach {WT} HEAD')
    sh(f'git -C {WT} reset -q --hard; git -C {WT} checkout -q --detach $(git -C /repo rev-parse HEAD); git -C {WT} reset -q --hard; git -C {WT} clean -fdq')
def overlay_for(pkg, demo_name):
    if not pkg.startswith('pkg/core') or pkg != 'pkg/core':
        return ''
    blank = '/tmp/wt/confirm_blank_test.go'
    open(blank, 'w').write('package core\n')
    rep = {}
    for f in glob.glob(f'{WT}/pkg/core/*_test.go'):
        if os.path.basename(f) != demo_name:
            rep[f] = blank
    ov = '/tmp/wt/confirm_overlay.json'
    json.dump({'Replace': rep}, open(ov, 'w'))
    return f'-overlay {ov}'
out_path = sys.argv[1]
results = json.load(open(out_path)) if os.path.exists(out_path) else {}
for spec in sys.argv[2:]:
    sid, d, pkg, run = spec.split(':')
    if sid in results and results[sid].get('done'):
        continue
    r = {'dir': d, 'pkg': pkg, 'run': run}
    reset()
    os.makedirs(f'{WT}/{pkg}', exist_ok=True)
    demo_name = 'zz_demo_test.go'
    shutil.copy(f'{d}/demo_test.go', f'{WT}/{pkg}/{demo_name}')
    ov = overlay_for(pkg, demo_name)
    rc, o = sh(f'cd {WT} && go test -vet=off -count=1 {ov} -run "{run}" ./{pkg}/')
    r['pristine_rc'] = rc; r['pristine_tail'] = o[-300:]
    os.remove(f'{WT}/{pkg}/{demo_name}')
    rc, o = sh(f'cd {WT} && git apply {d}/patch.diff')
    r['apply'] = 'clean'
    if rc != 0:
        rc, o = sh(f'cd {WT} && git apply -3 {d}/patch.diff')
        r['apply'] = '3way' if rc == 0 else 'FAILED: ' + o[-200:]
    if not r['apply'].startswith('FAILED'):
        sh(f'cd {WT} && git diff HEAD > /tmp/wt/confirm_rebased_{sid}.diff')
        rc, o = sh(f'cd {WT} && go build ./...')
        r['build_rc'] = rc
        if not pkg.startswith('pkg/core'):
            rc, o = sh(f'cd {WT} && go test -vet=off -count=1 ./{pkg}/')
            r['pkg_tests_rc'] = rc; r['pkg_tests_tail'] = o[-200:]
        shutil.copy(f'{d}/demo_test.go', f'{WT}/{pkg}/{demo_name}')
        ov = overlay_for(pkg, demo_name)
        rc, o = sh(f'cd {WT} && go test -vet=off -count=1 {ov} -run "{run}" ./{pkg}/')
        r['mutant_rc'] = rc; r['mutant_tail'] = o[-400:]
    r['done'] = True
    r['confirmed'] = (r.get('pristine_rc') == 0 and r.get('build_rc') == 0 and r.get('mutant_rc', 0) != 0)
    results[sid] = r
    json.dump(results, open(out_path, 'w'), indent=1)
    print(sid, 'confirmed' if r['confirmed'] else 'NOT CONFIRMED', r['apply'], r.get('pristine_rc'), r.get('mutant_rc'), flush=True)
reset()
