#!/usr/bin/env python3
"""One-off import of the second round of sub-agent changes (staged under /tmp/wt/r2stage by the session that
produced them) into /verif/seeded/R2-<prop>-m<k>/, using the confirmation results of tools/confirm_all.py."""
import json, os, re, shutil, sys
conf = json.load(open(sys.argv[1]))
stage = sys.argv[2]
for sid, r in sorted(conf.items()):
    if not r.get('confirmed'):
        print('skip (not confirmed):', sid); continue
    d = f'/verif/seeded/{sid}'
    os.makedirs(d, exist_ok=True)
    patch = f'{stage}/{sid}/patch.diff'
    rb = f'/tmp/wt/confirm_rebased_{sid}.diff'
    if r.get('apply') == '3way' and os.path.exists(rb):
        patch = rb
    shutil.copy(patch, d + '/patch.diff')
    shutil.copy(f'{stage}/{sid}/demo_test.go', d + '/demo_test.go')
    readme = open(f'{stage}/{sid}/README.md').read()
    title = readme.split('\n', 1)[0]
    title = re.sub(r'^#\s*', '', title)
    title = re.split(r'\s(?:—|--|:|-)\s', title, 1)[-1].strip()
    m = re.search(r'^## What is needed[^\n]*\n(.*?)(?=^## )', readme, re.S | re.M)
    needs = re.sub(r'\s+', ' ', m.group(1)).strip() if m else ''
    if len(needs) > 600:
        needs = needs[:600].rsplit(' ', 1)[0] + ' ...'
    prop = re.match(r'R\d-(C\d+)-', sid).group(1)
    ov = ' -overlay <json blanking the other pkg/core test files>' if r['pkg'] == 'pkg/core' else ''
    meta = {
        'id': sid, 'round': int(sid[1]), 'breaks_property': prop, 'what': title,
        'needs_to_manifest': needs,
        'demo': {'file': 'demo_test.go', 'copy_into': r['pkg'], 'run': f"go test -vet=off -count=1{ov} -run '{r['run']}' ./{r['pkg']}/"},
        'patch_applies_to_repo_head': True,
        'confirmed': f"tools/confirm_all.py in a scratch worktree of /repo: demo passes on the pristine tree (rc {r['pristine_rc']}); with the patch ({r['apply']} apply) the repository builds (rc {r['build_rc']}) and the demo fails (rc {r['mutant_rc']})",
        'origin': 'written by an independent sub-agent that was given only the property text, the places the first round had changed, and a scratch worktree',
    }
    old = {}
    if os.path.exists(d + '/meta.json'):
        old = json.load(open(d + '/meta.json'))
    for k in ('check_result', 'ran'):
        if k in old:
            meta[k] = old[k]
    json.dump(meta, open(d + '/meta.json', 'w'), indent=1)
    print('saved', sid)
