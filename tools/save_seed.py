#!/usr/bin/env python3
# usage: save_seed.py <seed-id> <property> <patch> <demo> <pkgdir> <run> <needs> <detected-by> [overlay-note]
import sys, json, os, shutil
sid, prop, patch, demo, pkg, run, needs, det = sys.argv[1:9]
note = sys.argv[9] if len(sys.argv) > 9 else ""
d = f"/verif/seeded/{sid}"
os.makedirs(d, exist_ok=True)
shutil.copy(patch, d + "/patch.diff")
shutil.copy(demo, d + "/demo_test.go")
meta = {
    "id": sid, "breaks_property": prop,
    "needs_to_manifest": needs,
    "demo": {"file": "demo_test.go", "copy_into": pkg, "run": f"go test -vet=off -count=1 {note} -run '{run}' ./{pkg}/".replace("  ", " ")},
    "confirmed": "tools/confirm_seed.sh in a scratch worktree of /repo HEAD: demo passes on the pristine tree; with the patch the repository builds, the package's existing tests still pass and the demo fails",
    "origin": "written by an independent sub-agent that was given only the property text and a scratch worktree",
    "check_result": det,
}
json.dump(meta, open(d + "/meta.json", "w"), indent=1)
print("saved", d)
