#!/bin/bash
# usage: confirm_seed.sh <patch.diff> <demo_test.go> <pkgdir> <RunRegex> [overlay.json]
# confirms in a scratch worktree of /repo HEAD: demo passes pristine; with patch: builds, package tests pass, demo fails.
set -u
export GOFLAGS=-mod=mod GOPROXY=off GOSUMDB=off GOTOOLCHAIN=local
PATCH="$1"; DEMO="$2"; PKG="$3"; RUN="$4"; OV="${5:-}"
WT=/tmp/wt/confirm
[ -d $WT ] || git -C /repo worktree add -q --detach $WT HEAD
git -C $WT checkout -q --detach $(git -C /repo rev-parse HEAD); git -C $WT checkout -- . ; git -C $WT clean -fdq
OVF=""; [ -n "$OV" ] && OVF="-overlay $OV"
cd $WT
cp "$DEMO" $PKG/zz_demo_test.go
echo "--- pristine demo:"; go test -vet=off -count=1 $OVF -run "$RUN" ./$PKG/ 2>&1 | tail -3
git apply "$PATCH" || { echo "PATCH DOES NOT APPLY"; exit 3; }
echo "--- build:"; go build ./... 2>&1 | tail -3
rm $PKG/zz_demo_test.go
echo "--- existing tests of $PKG with mutant:"; go test -vet=off -count=1 $OVF ./$PKG/ 2>&1 | tail -3
cp "$DEMO" $PKG/zz_demo_test.go
echo "--- mutant demo:"; go test -vet=off -count=1 $OVF -run "$RUN" ./$PKG/ 2>&1 | tail -4
git checkout -- .; git clean -fdq
