package interp

import (
	"fmt"
	"go/constant"
	"go/token"
	"go/types"
	"math"
	"unicode/utf8"
	"unsafe"

	"golang.org/x/tools/go/ssa"
)

func constValue(c *ssa.Const) value {
	if c.Value == nil {
		return zero(c.Type())
	}
	if t, ok := c.Type().Underlying().(*types.Basic); ok {
		switch t.Kind() {
		case types.Bool, types.UntypedBool:
			return constant.BoolVal(c.Value)
		case types.Int, types.UntypedInt:
			return int(c.Int64())
		case types.Int8:
			return int8(c.Int64())
		case types.Int16:
			return int16(c.Int64())
		case types.Int32, types.UntypedRune:
			return int32(c.Int64())
		case types.Int64:
			return c.Int64()
		case types.Uint:
			return uint(c.Uint64())
		case types.Uint8:
			return uint8(c.Uint64())
		case types.Uint16:
			return uint16(c.Uint64())
		case types.Uint32:
			return uint32(c.Uint64())
		case types.Uint64:
			return c.Uint64()
		case types.Uintptr:
			return uintptr(c.Uint64())
		case types.Float32:
			return float32(c.Float64())
		case types.Float64, types.UntypedFloat:
			return c.Float64()
		case types.Complex64:
			return complex64(c.Complex128())
		case types.Complex128, types.UntypedComplex:
			return c.Complex128()
		case types.String, types.UntypedString:
			if c.Value.Kind() == constant.String {
				return constant.StringVal(c.Value)
			}
			return string(rune(c.Int64()))
		}
	}
	panic(fmt.Sprintf("constValue: %s", c))
}

func asInt64(x value) int64 {
	if u, k, ok := intOf(x); ok {
		if kindSigned(k) {
			return sext(u, kindWidth(k))
		}
		return int64(u)
	}
	panic(fmt.Sprintf("cannot convert %T to int64", x))
}

func zero(t types.Type) value {
	switch t := t.(type) {
	case *types.Basic:
		if t.Kind() == types.UntypedNil {
			panic("untyped nil has no zero value")
		}
		if t.Info()&types.IsUntyped != 0 {
			t = types.Default(t).(*types.Basic)
		}
		switch t.Kind() {
		case types.Bool:
			return false
		case types.Int:
			return int(0)
		case types.Int8:
			return int8(0)
		case types.Int16:
			return int16(0)
		case types.Int32:
			return int32(0)
		case types.Int64:
			return int64(0)
		case types.Uint:
			return uint(0)
		case types.Uint8:
			return uint8(0)
		case types.Uint16:
			return uint16(0)
		case types.Uint32:
			return uint32(0)
		case types.Uint64:
			return uint64(0)
		case types.Uintptr:
			return uintptr(0)
		case types.Float32:
			return float32(0)
		case types.Float64:
			return float64(0)
		case types.Complex64:
			return complex64(0)
		case types.Complex128:
			return complex128(0)
		case types.String:
			return ""
		case types.UnsafePointer:
			return unsafe.Pointer(nil)
		default:
			panic(fmt.Sprint("zero for unexpected type:", t))
		}
	case *types.Pointer:
		return (*value)(nil)
	case *types.Array:
		a := make(array, t.Len())
		if isScalarType(t.Elem()) {
			z := zero(t.Elem())
			for i := range a {
				a[i] = z
			}
			return a
		}
		for i := range a {
			a[i] = zero(t.Elem())
		}
		return a
	case *types.Named:
		return zero(t.Underlying())
	case *types.Alias:
		return zero(types.Unalias(t))
	case *types.Interface:
		return iface{}
	case *types.Slice:
		return []value(nil)
	case *types.Struct:
		s := make(structure, t.NumFields())
		for i := range s {
			s[i] = zero(t.Field(i).Type())
		}
		return s
	case *types.Tuple:
		if t.Len() == 1 {
			return zero(t.At(0).Type())
		}
		s := make(tuple, t.Len())
		for i := range s {
			s[i] = zero(t.At(i).Type())
		}
		return s
	case *types.Chan:
		return (*vchan)(nil)
	case *types.Map:
		return (*omap)(nil)
	case *types.Signature:
		return (*ssa.Function)(nil)
	case *types.TypeParam:
		panic("zero: type parameter (generic code not instantiated)")
	}
	panic(fmt.Sprint("zero: unexpected ", t))
}

// slice returns x[lo:hi:max].
func slice(i *interpreter, x, lo, hi, max value) value {
	var Len, Cap int
	switch x := x.(type) {
	case string:
		Len = len(x)
		Cap = Len
	case symstr:
		Len = len(x.b)
		Cap = Len
	case []value:
		Len = len(x)
		Cap = cap(x)
	case *value: // *array
		if x == nil {
			i.rtPanic("invalid memory address or nil pointer dereference")
		}
		a := (*x).(array)
		Len = len(a)
		Cap = cap(a)
	}
	l := int64(0)
	if lo != nil {
		l = i.asIntC(lo)
	}
	h := int64(Len)
	if hi != nil {
		h = i.asIntC(hi)
	}
	m := int64(Cap)
	if max != nil {
		m = i.asIntC(max)
	}
	switch x := x.(type) {
	case string:
		if l < 0 || h < l || h > int64(Len) {
			i.rtPanic(fmt.Sprintf("slice bounds out of range [%d:%d] with length %d", l, h, Len))
		}
		return x[l:h]
	case symstr:
		if l < 0 || h < l || h > int64(Len) {
			i.rtPanic(fmt.Sprintf("slice bounds out of range [%d:%d] with length %d", l, h, Len))
		}
		return mkStr(x.b[l:h])
	case []value:
		if l < 0 || h < l || m < h || m > int64(Cap) {
			i.rtPanic(fmt.Sprintf("slice bounds out of range [%d:%d:%d] with capacity %d", l, h, m, Cap))
		}
		return x[l:h:m]
	case *value:
		a := (*x).(array)
		if l < 0 || h < l || m < h || m > int64(Cap) {
			i.rtPanic(fmt.Sprintf("slice bounds out of range [%d:%d:%d] with capacity %d", l, h, m, Cap))
		}
		return []value(a)[l:h:m]
	}
	panic(fmt.Sprintf("slice: unexpected X type: %T", x))
}

// mkStr builds a string value from byte cells, normalising to a Go string
// when every byte is concrete.
func mkStr(b []value) value {
	allc := true
	for _, c := range b {
		if _, ok := c.(uint8); !ok {
			allc = false
			break
		}
	}
	if allc {
		bs := make([]byte, len(b))
		for k, c := range b {
			bs[k] = c.(uint8)
		}
		return string(bs)
	}
	cp := make([]value, len(b))
	copy(cp, b)
	return symstr{cp}
}

// strCells returns the byte cells of a string value.
func strCells(s value) []value {
	switch s := s.(type) {
	case string:
		r := make([]value, len(s))
		for k := 0; k < len(s); k++ {
			r[k] = s[k]
		}
		return r
	case symstr:
		return s.b
	}
	panic(fmt.Sprintf("strCells: %T", s))
}

func strLen(s value) int {
	switch s := s.(type) {
	case string:
		return len(s)
	case symstr:
		return len(s.b)
	}
	panic(fmt.Sprintf("strLen: %T", s))
}

func isStr(v value) bool {
	switch v.(type) {
	case string, symstr:
		return true
	}
	return false
}

func lookup(i *interpreter, instr *ssa.Lookup, x, idx value) value {
	switch x := x.(type) {
	case *omap:
		v, ok := x.lookup(i, idx)
		mt := instr.X.Type().Underlying().(*types.Map)
		if !ok {
			v = zero(mt.Elem())
		} else {
			v = copyVal(mt.Elem(), v)
		}
		if instr.CommaOk {
			v = tuple{v, ok}
		}
		return v
	case string, symstr:
		return indexValue(i, x, idx)
	}
	panic(fmt.Sprintf("unexpected x type in Lookup: %T", x))
}

// ---------------------------------------------------------------------
// Terms from values.

// termOf returns the term of an integer or bool value.
func (i *interpreter) termOf(v value) (*Term, types.BasicKind) {
	switch x := v.(type) {
	case sym:
		return x.t, x.k
	case bool:
		return i.ts.Bool(x), types.Bool
	}
	if u, k, ok := intOf(v); ok {
		return i.ts.Const(kindWidth(k), u), k
	}
	panic(fmt.Sprintf("termOf: unexpected %T", v))
}

// valOf wraps a term as a value of kind k, concrete if constant.
func valOf(t *Term, k types.BasicKind) value {
	if t.IsConst() {
		if k == types.Bool {
			return t.val != 0
		}
		if kindSigned(k) {
			return mkInt(k, uint64(sext(t.val, t.sort)))
		}
		return mkInt(k, t.val)
	}
	return sym{t, k}
}

func isSym(v value) bool {
	_, ok := v.(sym)
	return ok
}

// ---------------------------------------------------------------------
// Binary operators.

func binop(i *interpreter, op token.Token, t types.Type, x, y value) value {
	// strings
	if isStr(x) && isStr(y) {
		return strBinop(i, op, x, y)
	}
	_, xs := x.(sym)
	_, ys := y.(sym)
	if xs || ys {
		return symBinop(i, op, x, y)
	}
	if xu, k, ok := intOf(x); ok {
		if yu, ky, ok2 := intOf(y); ok2 {
			return intBinop(i, op, k, xu, ky, yu)
		}
	}
	switch xx := x.(type) {
	case float64:
		return floatBinop(op, xx, y.(float64), false)
	case float32:
		r := floatBinop(op, float64(xx), float64(y.(float32)), true)
		return r
	case bool:
		switch op {
		case token.EQL:
			return xx == y.(bool)
		case token.NEQ:
			return xx != y.(bool)
		}
	case complex128, complex64:
		panic("complex arithmetic not supported")
	}
	switch op {
	case token.EQL:
		return eqnil(i, t, x, y)
	case token.NEQ:
		r := eqnil(i, t, x, y)
		return notValue(i, r)
	}
	panic(fmt.Sprintf("invalid binary op: %T %s %T", x, op, y))
}

func notValue(i *interpreter, v value) value {
	switch v := v.(type) {
	case bool:
		return !v
	case sym:
		return valOf(i.ts.Not(v.t), types.Bool)
	}
	panic("notValue")
}

func floatBinop(op token.Token, x, y float64, is32 bool) value {
	wrap := func(f float64) value {
		if is32 {
			return float32(f)
		}
		return f
	}
	switch op {
	case token.ADD:
		return wrap(x + y)
	case token.SUB:
		return wrap(x - y)
	case token.MUL:
		return wrap(x * y)
	case token.QUO:
		return wrap(x / y)
	case token.EQL:
		return x == y
	case token.NEQ:
		return x != y
	case token.LSS:
		return x < y
	case token.LEQ:
		return x <= y
	case token.GTR:
		return x > y
	case token.GEQ:
		return x >= y
	}
	panic("invalid float op " + op.String())
}

func intBinop(i *interpreter, op token.Token, k types.BasicKind, x uint64, ky types.BasicKind, y uint64) value {
	w := kindWidth(k)
	signed := kindSigned(k)
	sx, sy := sext(x, w), sext(y, kindWidth(ky))
	ux, uy := x&mask(w), y&mask(kindWidth(ky))
	switch op {
	case token.ADD:
		return mkInt(k, x+y)
	case token.SUB:
		return mkInt(k, x-y)
	case token.MUL:
		return mkInt(k, x*y)
	case token.QUO:
		if uy == 0 {
			i.rtPanic("integer divide by zero")
		}
		if signed {
			if sy == -1 {
				return mkInt(k, uint64(-sx))
			}
			return mkInt(k, uint64(sx/sy))
		}
		return mkInt(k, ux/uy)
	case token.REM:
		if uy == 0 {
			i.rtPanic("integer divide by zero")
		}
		if signed {
			if sy == -1 {
				return mkInt(k, 0)
			}
			return mkInt(k, uint64(sx%sy))
		}
		return mkInt(k, ux%uy)
	case token.AND:
		return mkInt(k, x&y)
	case token.OR:
		return mkInt(k, x|y)
	case token.XOR:
		return mkInt(k, x^y)
	case token.AND_NOT:
		return mkInt(k, x&^y)
	case token.SHL:
		if kindSigned(ky) && sy < 0 {
			i.rtPanic("negative shift amount")
		}
		if uy >= uint64(w) {
			return mkInt(k, 0)
		}
		return mkInt(k, ux<<uy)
	case token.SHR:
		if kindSigned(ky) && sy < 0 {
			i.rtPanic("negative shift amount")
		}
		if signed {
			if uy >= uint64(w) {
				uy = uint64(w) - 1
			}
			return mkInt(k, uint64(sx>>uy))
		}
		if uy >= uint64(w) {
			return mkInt(k, 0)
		}
		return mkInt(k, ux>>uy)
	case token.EQL:
		return ux == uy
	case token.NEQ:
		return ux != uy
	case token.LSS:
		if signed {
			return sx < sy
		}
		return ux < uy
	case token.LEQ:
		if signed {
			return sx <= sy
		}
		return ux <= uy
	case token.GTR:
		if signed {
			return sx > sy
		}
		return ux > uy
	case token.GEQ:
		if signed {
			return sx >= sy
		}
		return ux >= uy
	}
	panic("invalid int op " + op.String())
}

func symBinop(i *interpreter, op token.Token, x, y value) value {
	ts := i.ts
	tx, kx := i.termOf(x)
	ty, ky := i.termOf(y)
	k := kx
	if kx == types.Bool {
		switch op {
		case token.EQL:
			return valOf(ts.Cmp("=", tx, ty), types.Bool)
		case token.NEQ:
			return valOf(ts.Not(ts.Cmp("=", tx, ty)), types.Bool)
		}
		panic("invalid symbolic bool op " + op.String())
	}
	w := kindWidth(k)
	signed := kindSigned(k)
	switch op {
	case token.SHL, token.SHR:
		// shift count may have a different width/kind
		wy := kindWidth(ky)
		if kindSigned(ky) {
			neg := ts.Cmp("bvslt", ty, ts.Const(wy, 0))
			if i.ps.decide(neg) {
				i.rtPanic("negative shift amount")
			}
		}
		var cnt *Term
		if wy <= w {
			cnt = ts.Resize(ty, w, false)
		} else {
			// saturate: counts >= w behave like w
			big := ts.Cmp("bvule", ts.Const(wy, uint64(w)), ty)
			cnt = ts.Ite(big, ts.Const(w, uint64(w)), ts.Resize(ty, w, false))
		}
		var r *Term
		if op == token.SHL {
			r = ts.Bin("bvshl", tx, cnt)
		} else if signed {
			r = ts.Bin("bvashr", tx, cnt)
		} else {
			r = ts.Bin("bvlshr", tx, cnt)
		}
		return valOf(r, k)
	}
	if tx.sort != ty.sort {
		panic(fmt.Sprintf("symBinop: width mismatch %d vs %d for %s", tx.sort, ty.sort, op))
	}
	switch op {
	case token.ADD:
		return valOf(ts.Bin("bvadd", tx, ty), k)
	case token.SUB:
		return valOf(ts.Bin("bvsub", tx, ty), k)
	case token.MUL:
		return valOf(ts.Bin("bvmul", tx, ty), k)
	case token.QUO, token.REM:
		z := ts.Cmp("=", ty, ts.Const(w, 0))
		if i.ps.decide(z) {
			i.rtPanic("integer divide by zero")
		}
		var o string
		switch {
		case op == token.QUO && signed:
			o = "bvsdiv"
		case op == token.QUO:
			o = "bvudiv"
		case signed:
			o = "bvsrem"
		default:
			o = "bvurem"
		}
		return valOf(ts.Bin(o, tx, ty), k)
	case token.AND:
		return valOf(ts.Bin("bvand", tx, ty), k)
	case token.OR:
		return valOf(ts.Bin("bvor", tx, ty), k)
	case token.XOR:
		return valOf(ts.Bin("bvxor", tx, ty), k)
	case token.AND_NOT:
		return valOf(ts.Bin("bvand", tx, ts.BvNot(ty)), k)
	case token.EQL:
		return valOf(ts.Cmp("=", tx, ty), types.Bool)
	case token.NEQ:
		return valOf(ts.Not(ts.Cmp("=", tx, ty)), types.Bool)
	case token.LSS:
		if signed {
			return valOf(ts.Cmp("bvslt", tx, ty), types.Bool)
		}
		return valOf(ts.Cmp("bvult", tx, ty), types.Bool)
	case token.LEQ:
		if signed {
			return valOf(ts.Cmp("bvsle", tx, ty), types.Bool)
		}
		return valOf(ts.Cmp("bvule", tx, ty), types.Bool)
	case token.GTR:
		if signed {
			return valOf(ts.Cmp("bvslt", ty, tx), types.Bool)
		}
		return valOf(ts.Cmp("bvult", ty, tx), types.Bool)
	case token.GEQ:
		if signed {
			return valOf(ts.Cmp("bvsle", ty, tx), types.Bool)
		}
		return valOf(ts.Cmp("bvule", ty, tx), types.Bool)
	}
	panic("invalid symbolic op " + op.String())
}

// strEqTerm: equality of two string values as a term.
func strEqTerm(i *interpreter, x, y value) *Term {
	if xs, ok := x.(string); ok {
		if ys, ok := y.(string); ok {
			return i.ts.Bool(xs == ys)
		}
	}
	if strLen(x) != strLen(y) {
		return i.ts.Bool(false)
	}
	xb, yb := strCells(x), strCells(y)
	r := i.ts.Bool(true)
	for k := range xb {
		a, _ := i.termOf(xb[k])
		b, _ := i.termOf(yb[k])
		r = i.ts.And(r, i.ts.Cmp("=", a, b))
		if r.IsConst() && r.val == 0 {
			return r
		}
	}
	return r
}

// strLessTerm: x < y lexicographically (orEq: x <= y).
func strLessTerm(i *interpreter, x, y value, orEq bool) *Term {
	xb, yb := strCells(x), strCells(y)
	ts := i.ts
	n := len(xb)
	if len(yb) < n {
		n = len(yb)
	}
	// result when all of the first n bytes are equal
	var tail *Term
	if orEq {
		tail = ts.Bool(len(xb) <= len(yb))
	} else {
		tail = ts.Bool(len(xb) < len(yb))
	}
	r := tail
	for k := n - 1; k >= 0; k-- {
		a, _ := i.termOf(xb[k])
		b, _ := i.termOf(yb[k])
		lt := ts.Cmp("bvult", a, b)
		eq := ts.Cmp("=", a, b)
		r = ts.Or(lt, ts.And(eq, r))
	}
	return r
}

func strBinop(i *interpreter, op token.Token, x, y value) value {
	xs, xc := x.(string)
	ys, yc := y.(string)
	if xc && yc {
		switch op {
		case token.ADD:
			return xs + ys
		case token.EQL:
			return xs == ys
		case token.NEQ:
			return xs != ys
		case token.LSS:
			return xs < ys
		case token.LEQ:
			return xs <= ys
		case token.GTR:
			return xs > ys
		case token.GEQ:
			return xs >= ys
		}
	}
	switch op {
	case token.ADD:
		b := append(append([]value{}, strCells(x)...), strCells(y)...)
		return mkStr(b)
	case token.EQL:
		return valOf(strEqTerm(i, x, y), types.Bool)
	case token.NEQ:
		return valOf(i.ts.Not(strEqTerm(i, x, y)), types.Bool)
	case token.LSS:
		return valOf(strLessTerm(i, x, y, false), types.Bool)
	case token.LEQ:
		return valOf(strLessTerm(i, x, y, true), types.Bool)
	case token.GTR:
		return valOf(strLessTerm(i, y, x, false), types.Bool)
	case token.GEQ:
		return valOf(strLessTerm(i, y, x, true), types.Bool)
	}
	panic("invalid string op " + op.String())
}

// eqnil handles == where one side may be a nil literal of
// map/func/slice/pointer/chan type, else general equality.
func eqnil(i *interpreter, t types.Type, x, y value) value {
	switch t.Underlying().(type) {
	case *types.Map, *types.Signature, *types.Slice:
		switch x := x.(type) {
		case *omap:
			return (x != nil) == (y.(*omap) != nil)
		case *ssa.Function:
			switch y := y.(type) {
			case *ssa.Function:
				return (x != nil) == (y != nil)
			case *closure:
				return (x != nil) == (y != nil)
			case *ssa.Builtin:
				return x == nil && y == nil
			}
		case *closure:
			switch y := y.(type) {
			case *ssa.Function:
				return (x != nil) == (y != nil)
			case *closure:
				return (x != nil) == (y != nil)
			}
		case *ssa.Builtin:
			return false
		case []value:
			return (x != nil) == (y.([]value) != nil)
		}
		panic(fmt.Sprintf("eqnil(%s): illegal dynamic type: %T", t, x))
	}
	return valOf(eqTerm(i, t, x, y), types.Bool)
}

// eqTerm returns the term for x == y at static type t.
func eqTerm(i *interpreter, t types.Type, x, y value) *Term {
	ts := i.ts
	switch xx := x.(type) {
	case bool, sym, int, int8, int16, int32, int64, uint, uint8, uint16, uint32, uint64, uintptr:
		if _, ok := y.(sym); !ok {
			if _, ok := x.(sym); !ok {
				return ts.Bool(x == y)
			}
		}
		a, _ := i.termOf(x)
		b, _ := i.termOf(y)
		return ts.Cmp("=", a, b)
	case float32:
		return ts.Bool(xx == y.(float32))
	case float64:
		return ts.Bool(xx == y.(float64))
	case complex64:
		return ts.Bool(xx == y.(complex64))
	case complex128:
		return ts.Bool(xx == y.(complex128))
	case string, symstr:
		return strEqTerm(i, x, y)
	case *value:
		return ts.Bool(xx == y.(*value))
	case *vchan:
		return ts.Bool(xx == y.(*vchan))
	case unsafe.Pointer:
		return ts.Bool(xx == y.(unsafe.Pointer))
	case structure:
		yy := y.(structure)
		st := t.Underlying().(*types.Struct)
		r := ts.Bool(true)
		for k := 0; k < st.NumFields(); k++ {
			f := st.Field(k)
			if f.Name() == "_" {
				continue
			}
			r = ts.And(r, eqTerm(i, f.Type(), xx[k], yy[k]))
			if r.IsConst() && r.val == 0 {
				return r
			}
		}
		return r
	case array:
		yy := y.(array)
		et := t.Underlying().(*types.Array).Elem()
		r := ts.Bool(true)
		for k := range xx {
			r = ts.And(r, eqTerm(i, et, xx[k], yy[k]))
			if r.IsConst() && r.val == 0 {
				return r
			}
		}
		return r
	case iface:
		yy := y.(iface)
		if !sameType(xx.t, yy.t) {
			return ts.Bool(false)
		}
		if xx.t == nil {
			return ts.Bool(true)
		}
		if !types.Comparable(xx.t) {
			panic(targetPanic{v: iface{t: i.P.runtimeErrorString, v: "runtime error: comparing uncomparable type " + xx.t.String()}})
		}
		return eqTerm(i, xx.t, xx.v, yy.v)
	case rtype:
		return ts.Bool(types.Identical(xx.t, y.(rtype).t))
	case *ssa.Function, *closure, *ssa.Builtin, []value, *omap:
		// only reachable through interface comparison of uncomparable types
		panic(targetPanic{v: iface{t: i.P.runtimeErrorString, v: "runtime error: comparing uncomparable type " + t.String()}})
	}
	panic(fmt.Sprintf("eqTerm: unexpected %T (type %s)", x, t))
}

// equals decides x == y concretely (forking when symbolic).
func equals(i *interpreter, t types.Type, x, y value) bool {
	e := eqTerm(i, t, x, y)
	if e.IsConst() {
		return e.val != 0
	}
	return i.ps.decide(e)
}

func unop(i *interpreter, instr *ssa.UnOp, x value) value {
	switch instr.Op {
	case token.ARROW:
		c, _ := x.(*vchan)
		v, ok := i.chanRecv(c)
		if !ok {
			v = zero(instr.X.Type().Underlying().(*types.Chan).Elem())
		}
		if instr.CommaOk {
			v = tuple{v, ok}
		}
		return v
	case token.SUB:
		switch xx := x.(type) {
		case sym:
			return valOf(i.ts.BvNeg(xx.t), xx.k)
		case float32:
			return -xx
		case float64:
			return -xx
		}
		if u, k, ok := intOf(x); ok {
			return mkInt(k, -u)
		}
	case token.MUL:
		if sr, ok := x.(symref); ok {
			v, ok := symIndex(i, func(k int) value { return sr.cells[k] }, len(sr.cells), sr.idx)
			if !ok {
				panic("symref: cells changed shape")
			}
			return v
		}
		p := x.(*value)
		if p == nil {
			i.rtPanic("invalid memory address or nil pointer dereference")
		}
		return load(mustDeref(instr.X.Type()), p)
	case token.NOT:
		return notValue(i, x)
	case token.XOR:
		if xx, ok := x.(sym); ok {
			return valOf(i.ts.BvNot(xx.t), xx.k)
		}
		if u, k, ok := intOf(x); ok {
			return mkInt(k, ^u)
		}
	}
	panic(fmt.Sprintf("invalid unary op %s %T", instr.Op, x))
}

func typeAssert(i *interpreter, instr *ssa.TypeAssert, itf iface) value {
	var v value
	err := ""
	if itf.t == nil {
		err = fmt.Sprintf("interface conversion: interface is nil, not %s", instr.AssertedType)
	} else if idst, ok := instr.AssertedType.Underlying().(*types.Interface); ok {
		v = itf
		err = checkInterface(i, idst, itf)
	} else if types.Identical(itf.t, instr.AssertedType) {
		v = itf.v
	} else {
		err = fmt.Sprintf("interface conversion: interface is %s, not %s", itf.t, instr.AssertedType)
	}
	if err != "" {
		if !instr.CommaOk {
			panic(targetPanic{v: iface{t: i.P.runtimeErrorString, v: err}})
		}
		return tuple{zero(instr.AssertedType), false}
	}
	if instr.CommaOk {
		return tuple{v, true}
	}
	return v
}

func checkInterface(i *interpreter, itype *types.Interface, x iface) string {
	if meth, _ := types.MissingMethod(x.t, itype, true); meth != nil {
		return fmt.Sprintf("interface conversion: %v is not %v: missing method %s",
			x.t, itype, meth.Name())
	}
	return ""
}

// appendCells implements append for slices.
func appendCells(dst []value, src []value, elemT types.Type) []value {
	if elemT != nil && !isScalarType(elemT) {
		for _, v := range src {
			dst = append(dst, copyVal(elemT, v))
		}
		return dst
	}
	return append(dst, src...)
}

func callBuiltin(i *interpreter, caller *frame, callpos token.Pos, fn *ssa.Builtin, args []value) value {
	switch fn.Name() {
	case "append":
		if len(args) == 1 {
			return args[0]
		}
		if isStr(args[1]) {
			return append(args[0].([]value), strCells(args[1])...)
		}
		var et types.Type
		if sig, ok := fn.Type().(*types.Signature); ok && sig.Params().Len() > 0 {
			if st, ok := sig.Params().At(0).Type().Underlying().(*types.Slice); ok {
				et = st.Elem()
			}
		}
		return appendCells(args[0].([]value), args[1].([]value), et)

	case "copy":
		dst := args[0].([]value)
		var src []value
		if isStr(args[1]) {
			src = strCells(args[1])
		} else {
			src = args[1].([]value)
		}
		var et types.Type
		if sig, ok := fn.Type().(*types.Signature); ok && sig.Params().Len() > 0 {
			if st, ok := sig.Params().At(0).Type().Underlying().(*types.Slice); ok {
				et = st.Elem()
			}
		}
		n := len(dst)
		if len(src) < n {
			n = len(src)
		}
		if et != nil && !isScalarType(et) {
			// element-wise with value semantics; handle overlap via temp
			tmp := make([]value, n)
			for k := 0; k < n; k++ {
				tmp[k] = copyVal(et, src[k])
			}
			for k := 0; k < n; k++ {
				store(et, &dst[k], tmp[k])
			}
			return n
		}
		return copy(dst, src)

	case "close":
		c, _ := args[0].(*vchan)
		i.chanClose(c)
		return nil

	case "delete":
		m := args[0].(*omap)
		if m != nil {
			m.delete(i, args[1])
		}
		return nil

	case "clear":
		switch x := args[0].(type) {
		case *omap:
			if x != nil {
				x.clear()
			}
		case []value:
			if len(x) > 0 {
				if sig, ok := fn.Type().(*types.Signature); ok {
					et := sig.Params().At(0).Type().Underlying().(*types.Slice).Elem()
					for k := range x {
						x[k] = zero(et)
					}
				}
			}
		}
		return nil

	case "print", "println":
		return nil

	case "len":
		switch x := args[0].(type) {
		case string:
			return len(x)
		case symstr:
			return len(x.b)
		case array:
			return len(x)
		case *value:
			return len((*x).(array))
		case []value:
			return len(x)
		case *omap:
			return x.len()
		case *vchan:
			if x == nil {
				return 0
			}
			return len(x.buf)
		default:
			panic(fmt.Sprintf("len: illegal operand: %T", x))
		}

	case "cap":
		switch x := args[0].(type) {
		case array:
			return cap(x)
		case *value:
			return cap((*x).(array))
		case []value:
			return cap(x)
		case *vchan:
			if x == nil {
				return 0
			}
			return x.capacity
		default:
			panic(fmt.Sprintf("cap: illegal operand: %T", x))
		}

	case "min", "max":
		x := args[0]
		for _, a := range args[1:] {
			var lt value
			if fn.Name() == "min" {
				lt = binop(i, token.LSS, nil, a, x)
			} else {
				lt = binop(i, token.GTR, nil, a, x)
			}
			if i.truth(lt) {
				x = a
			}
		}
		return x

	case "panic":
		panic(targetPanic{args[0]})

	case "recover":
		return doRecover(caller)

	case "ssa:wrapnilchk":
		recv := args[0]
		if recv.(*value) == nil {
			i.rtPanic(fmt.Sprintf("value method (%s).%s called using nil *%s pointer", args[1], args[2], args[1]))
		}
		return recv

	case "ssa:deferstack":
		return &caller.defers
	}
	panic("unknown built-in: " + fn.Name())
}

// ---------------------------------------------------------------------
// Iterators.

type stringIter struct {
	cells []value
	pos   int
}

func (it *stringIter) next(i *interpreter) tuple {
	okv := make(tuple, 3)
	if it.pos >= len(it.cells) {
		okv[0] = false
		return okv
	}
	r, n := decodeRune(i, it.cells[it.pos:])
	okv[0] = true
	okv[1] = it.pos
	okv[2] = r
	it.pos += n
	return okv
}

// decodeRune decodes the first rune of cells (which may be symbolic),
// forking on byte classes as utf8.DecodeRune would branch.
// encodeRuneSym is string(rune(x)) for a symbolic integer: the UTF-8 length is
// decided (forking at most over the five encoding classes), the bytes are terms.
func encodeRuneSym(i *interpreter, s sym) value {
	ts := i.ts
	r := ts.Resize(s.t, 64, kindSigned(s.k))
	c := func(v uint64) *Term { return ts.Const(64, v) }
	lt := func(v uint64) bool { return i.ps.decide(ts.Cmp("bvult", r, c(v))) } // unsigned: negative values are huge
	b8 := func(t *Term) value { return valOf(ts.Resize(t, 8, false), types.Uint8) }
	shr := func(n uint64) *Term { return ts.Bin("bvlshr", r, c(n)) }
	low6 := func(t *Term) *Term { return ts.Bin("bvor", c(0x80), ts.Bin("bvand", t, c(0x3F))) }
	switch {
	case lt(0x80):
		return mkStr([]value{b8(r)})
	case lt(0x800):
		return mkStr([]value{b8(ts.Bin("bvor", c(0xC0), shr(6))), b8(low6(r))})
	case lt(0x10000):
		if i.ps.decide(ts.And(ts.Cmp("bvule", c(0xD800), r), ts.Cmp("bvule", r, c(0xDFFF)))) {
			return "\uFFFD"
		}
		return mkStr([]value{b8(ts.Bin("bvor", c(0xE0), shr(12))), b8(low6(shr(6))), b8(low6(r))})
	case lt(0x110000):
		return mkStr([]value{b8(ts.Bin("bvor", c(0xF0), shr(18))), b8(low6(shr(12))), b8(low6(shr(6))), b8(low6(r))})
	}
	return "\uFFFD"
}

func decodeRune(i *interpreter, cells []value) (value, int) {
	allc := true
	lim := len(cells)
	if lim > 4 {
		lim = 4
	}
	for _, c := range cells[:lim] {
		if _, ok := c.(uint8); !ok {
			allc = false
		}
	}
	if allc {
		bs := make([]byte, lim)
		for k := range bs {
			bs[k] = cells[k].(uint8)
		}
		r, n := utf8.DecodeRune(bs)
		return r, n
	}
	ts := i.ts
	b0, _ := i.termOf(cells[0])
	c8 := func(v uint64) *Term { return ts.Const(8, v) }
	if i.ps.decide(ts.Cmp("bvult", b0, c8(0x80))) {
		return valOf(ts.Resize(b0, 32, false), types.Int32), 1
	}
	bad := func() (value, int) { return int32(utf8.RuneError), 1 }
	// continuation byte check
	cont := func(k int, lo, hi uint64) (*Term, bool) {
		if k >= len(cells) {
			return nil, false
		}
		b, _ := i.termOf(cells[k])
		in := ts.And(ts.Cmp("bvule", c8(lo), b), ts.Cmp("bvule", b, c8(hi)))
		if !i.ps.decide(in) {
			return nil, false
		}
		return b, true
	}
	ext := func(b *Term, m uint64) *Term {
		return ts.Resize(ts.Bin("bvand", b, c8(m)), 32, false)
	}
	shl := func(t *Term, n uint64) *Term { return ts.Bin("bvshl", t, ts.Const(32, n)) }
	inr := func(lo, hi uint64) bool {
		return i.ps.decide(ts.And(ts.Cmp("bvule", c8(lo), b0), ts.Cmp("bvule", b0, c8(hi))))
	}
	switch {
	case inr(0xC2, 0xDF):
		b1, ok := cont(1, 0x80, 0xBF)
		if !ok {
			return bad()
		}
		return valOf(ts.Bin("bvor", shl(ext(b0, 0x1F), 6), ext(b1, 0x3F)), types.Int32), 2
	case inr(0xE0, 0xEF):
		lo, hi := uint64(0x80), uint64(0xBF)
		if i.ps.decide(ts.Cmp("=", b0, c8(0xE0))) {
			lo = 0xA0
		} else if i.ps.decide(ts.Cmp("=", b0, c8(0xED))) {
			hi = 0x9F
		}
		b1, ok := cont(1, lo, hi)
		if !ok {
			return bad()
		}
		b2, ok := cont(2, 0x80, 0xBF)
		if !ok {
			return bad()
		}
		r := ts.Bin("bvor", ts.Bin("bvor", shl(ext(b0, 0x0F), 12), shl(ext(b1, 0x3F), 6)), ext(b2, 0x3F))
		return valOf(r, types.Int32), 3
	case inr(0xF0, 0xF4):
		lo, hi := uint64(0x80), uint64(0xBF)
		if i.ps.decide(ts.Cmp("=", b0, c8(0xF0))) {
			lo = 0x90
		} else if i.ps.decide(ts.Cmp("=", b0, c8(0xF4))) {
			hi = 0x8F
		}
		b1, ok := cont(1, lo, hi)
		if !ok {
			return bad()
		}
		b2, ok := cont(2, 0x80, 0xBF)
		if !ok {
			return bad()
		}
		b3, ok := cont(3, 0x80, 0xBF)
		if !ok {
			return bad()
		}
		r := ts.Bin("bvor", ts.Bin("bvor", shl(ext(b0, 0x07), 18), shl(ext(b1, 0x3F), 12)),
			ts.Bin("bvor", shl(ext(b2, 0x3F), 6), ext(b3, 0x3F)))
		return valOf(r, types.Int32), 4
	}
	return bad()
}

type mapIter struct {
	m   *omap
	pos int
}

func (it *mapIter) next(i *interpreter) tuple {
	if it.m != nil {
		for it.pos < len(it.m.entries) {
			e := it.m.entries[it.pos]
			it.pos++
			if !e.deleted {
				return tuple{true, e.key, e.val}
			}
		}
	}
	return tuple{false, nil, nil}
}

func rangeIter(i *interpreter, x value, t types.Type) iter {
	switch x := x.(type) {
	case *omap:
		return &mapIter{m: x}
	case string, symstr:
		return &stringIter{cells: strCells(x)}
	}
	panic(fmt.Sprintf("cannot range over %T", x))
}

// ---------------------------------------------------------------------
// Conversions.

func conv(i *interpreter, t_dst, t_src types.Type, x value) value {
	ut_src := t_src.Underlying()
	ut_dst := t_dst.Underlying()

	switch ut_src := ut_src.(type) {
	case *types.Pointer:
		if b, ok := ut_dst.(*types.Basic); ok && b.Kind() == types.UnsafePointer {
			return unsafe.Pointer(x.(*value))
		}
	case *types.Slice:
		// []byte or []rune -> string
		switch basicKindOf(ut_src.Elem()) {
		case types.Uint8:
			return mkStr(x.([]value))
		case types.Int32:
			xs := x.([]value)
			var out []value
			for _, r := range xs {
				if sr, ok := r.(sym); ok {
					out = append(out, strCells(encodeRuneSym(i, sr))...)
					continue
				}
				rv := i.asIntC(r)
				for _, b := range []byte(string(rune(rv))) {
					out = append(out, b)
				}
			}
			return mkStr(out)
		}
	case *types.Basic:
		dk := basicKindOf(ut_dst)
		// string source
		if isStr(x) {
			switch ut_dst := ut_dst.(type) {
			case *types.Slice:
				switch basicKindOf(ut_dst.Elem()) {
				case types.Int32:
					var res []value
					cells := strCells(x)
					for p := 0; p < len(cells); {
						r, n := decodeRune(i, cells[p:])
						res = append(res, r)
						p += n
					}
					return res
				case types.Uint8:
					cells := strCells(x)
					res := make([]value, len(cells))
					copy(res, cells)
					if len(res) == 0 {
						return []value{}
					}
					return res
				}
			case *types.Basic:
				if ut_dst.Kind() == types.String {
					return x
				}
			}
			break
		}
		if ut_src.Kind() == types.UnsafePointer {
			if p, ok := x.(unsafe.Pointer); ok {
				if _, ok := ut_dst.(*types.Pointer); ok {
					return (*value)(p)
				}
				if dk == types.Uintptr {
					return uintptr(p)
				}
			}
			return zero(t_dst)
		}
		// symbolic integer source
		if s, ok := x.(sym); ok {
			switch {
			case dk == types.String:
				return encodeRuneSym(i, s)
			case isIntKind(dk):
				return valOf(i.ts.Resize(s.t, kindWidth(dk), kindSigned(s.k)), dk)
			case dk == types.Float64 || dk == types.Float32:
				v := i.asIntC(x)
				if dk == types.Float32 {
					return float32(v)
				}
				return float64(v)
			case dk == types.Bool:
				return x
			}
			break
		}
		if u, k, ok := intOf(x); ok {
			sv := sext(u, kindWidth(k))
			switch {
			case dk == types.String:
				if kindSigned(k) {
					return string(rune(sv))
				}
				if u > 0x10FFFF {
					return "�"
				}
				return string(rune(u))
			case isIntKind(dk):
				if kindSigned(k) {
					return mkInt(dk, uint64(sv))
				}
				return mkInt(dk, u&mask(kindWidth(k)))
			case dk == types.Float64:
				if kindSigned(k) {
					return float64(sv)
				}
				return float64(u & mask(kindWidth(k)))
			case dk == types.Float32:
				if kindSigned(k) {
					return float32(sv)
				}
				return float32(u & mask(kindWidth(k)))
			case dk == types.UnsafePointer:
				return unsafe.Pointer(nil)
			}
			break
		}
		var f float64
		isF := false
		switch xx := x.(type) {
		case float64:
			f, isF = xx, true
		case float32:
			f, isF = float64(xx), true
		case bool:
			if dk == types.Bool {
				return xx
			}
		case complex128:
			switch dk {
			case types.Complex128:
				return xx
			case types.Complex64:
				return complex64(xx)
			}
		case complex64:
			switch dk {
			case types.Complex128:
				return complex128(xx)
			case types.Complex64:
				return xx
			}
		}
		if isF {
			switch {
			case dk == types.Float64:
				return f
			case dk == types.Float32:
				return float32(f)
			case isIntKind(dk):
				if kindSigned(dk) {
					return mkInt(dk, uint64(int64(f)))
				}
				if f >= math.MaxInt64 {
					return mkInt(dk, uint64(f))
				}
				return mkInt(dk, uint64(int64(f)))
			}
		}
	}
	panic(fmt.Sprintf("unsupported conversion: %s  -> %s, dynamic type %T", t_src, t_dst, x))
}

func sliceToArrayPointer(i *interpreter, t_dst, t_src types.Type, x value) value {
	if _, ok := t_src.Underlying().(*types.Slice); ok {
		if ptr, ok := t_dst.Underlying().(*types.Pointer); ok {
			if arr, ok := ptr.Elem().Underlying().(*types.Array); ok {
				x := x.([]value)
				if arr.Len() > int64(len(x)) {
					i.rtPanic("cannot convert slice with length to array or pointer to array with greater length")
				}
				if x == nil {
					return zero(t_dst)
				}
				v := value(array(x[:arr.Len()]))
				return &v
			}
		}
	}
	panic(fmt.Sprintf("unsupported conversion: %s  -> %s, dynamic type %T", t_src, t_dst, x))
}
