package interp

// regexp model. Concrete subjects run on the host's regexp (a pure function
// of pattern and subject). A subject with symbolic bytes is matched by
// unrolling the compiled program (regexp/syntax) as a Thompson NFA over the
// byte positions; symbolic subject bytes are assumed ASCII (recorded as a
// stub assumption), so one byte is one rune.

import (
	"fmt"
	"go/types"
	"regexp"
	"regexp/syntax"
)

type reState struct {
	re   *regexp.Regexp
	prog *syntax.Prog
	expr string
}

func (i *interpreter) regexps() map[*value]*reState {
	m, _ := i.hostState["regexps"].(map[*value]*reState)
	if m == nil {
		m = map[*value]*reState{}
		i.hostState["regexps"] = m
	}
	return m
}

// regexps compiled during shared package initialisation live in Program.
func (i *interpreter) reOf(p *value) *reState {
	if p == nil {
		i.rtPanic("invalid memory address or nil pointer dereference")
	}
	if r := i.regexps()[p]; r != nil {
		return r
	}
	i.P.reMu.Lock()
	defer i.P.reMu.Unlock()
	if r := i.P.sharedRe[p]; r != nil {
		return r
	}
	i.ps.unsupported("regexp value without model (zero Regexp?)")
	return nil
}

func (i *interpreter) compileRe(expr string, must bool) value {
	t := i.P.lookupType("regexp", "Regexp")
	re, err := regexp.Compile(expr)
	if err != nil {
		if must {
			panic(targetPanic{v: "regexp: Compile(" + expr + "): " + err.Error()})
		}
		return tuple{(*value)(nil), i.newError(err.Error())}
	}
	rs, _ := syntax.Parse(expr, syntax.Perl)
	prog, _ := syntax.Compile(rs.Simplify())
	cell := zero(t)
	p := &cell
	st := &reState{re: re, prog: prog, expr: expr}
	i.regexps()[p] = st
	i.P.reMu.Lock()
	if i.P.sharedRe == nil {
		i.P.sharedRe = map[*value]*reState{}
	}
	if i.ps == nil || i.ps.solver == nil {
		i.P.sharedRe[p] = st
	}
	i.P.reMu.Unlock()
	if must {
		return p
	}
	return tuple{p, iface{}}
}

// runeCond: term for "byte b (ASCII) matches instruction inst".
func runeCond(i *interpreter, inst *syntax.Inst, b *Term) *Term {
	ts := i.ts
	c8 := func(v rune) *Term { return ts.Const(8, uint64(v)) }
	inRange := func(lo, hi rune) *Term {
		if lo > 0x7f {
			return ts.Bool(false)
		}
		if hi > 0x7f {
			hi = 0x7f
		}
		if lo == hi {
			return ts.Cmp("=", b, c8(lo))
		}
		return ts.And(ts.Cmp("bvule", c8(lo), b), ts.Cmp("bvule", b, c8(hi)))
	}
	switch inst.Op {
	case syntax.InstRuneAny:
		return ts.Bool(true)
	case syntax.InstRuneAnyNotNL:
		return ts.Not(ts.Cmp("=", b, c8('\n')))
	case syntax.InstRune1, syntax.InstRune:
		r := ts.Bool(false)
		runes := inst.Rune
		fold := syntax.Flags(inst.Arg)&syntax.FoldCase != 0
		if len(runes) == 1 {
			r = inRange(runes[0], runes[0])
			if fold {
				c := runes[0]
				if c >= 'a' && c <= 'z' {
					r = ts.Or(r, inRange(c-32, c-32))
				} else if c >= 'A' && c <= 'Z' {
					r = ts.Or(r, inRange(c+32, c+32))
				}
			}
			return r
		}
		for k := 0; k+1 < len(runes); k += 2 {
			r = ts.Or(r, inRange(runes[k], runes[k+1]))
			if fold {
				lo, hi := runes[k], runes[k+1]
				// add the other case of the ASCII letters in range
				for c := lo; c <= hi && c < 0x80; c++ {
					if c >= 'a' && c <= 'z' {
						r = ts.Or(r, inRange(c-32, c-32))
					} else if c >= 'A' && c <= 'Z' {
						r = ts.Or(r, inRange(c+32, c+32))
					}
				}
			}
		}
		return r
	}
	return ts.Bool(false)
}

func isWordTerm(i *interpreter, b *Term) *Term {
	ts := i.ts
	c8 := func(v rune) *Term { return ts.Const(8, uint64(v)) }
	rng := func(lo, hi rune) *Term { return ts.And(ts.Cmp("bvule", c8(lo), b), ts.Cmp("bvule", b, c8(hi))) }
	return ts.Or(ts.Or(rng('a', 'z'), rng('A', 'Z')), ts.Or(rng('0', '9'), ts.Cmp("=", b, c8('_'))))
}

// nfaMatch returns the term "prog matches somewhere in cells" (MatchString semantics).
func nfaMatch(i *interpreter, prog *syntax.Prog, cells []value) *Term {
	ts := i.ts
	n := len(cells)
	bytes := make([]*Term, n)
	for k, c := range cells {
		t, _ := i.termOf(c)
		bytes[k] = t
		if !t.IsConst() {
			// ASCII assumption for symbolic subject bytes
			i.ps.solver.Assert(ts.Cmp("bvult", t, ts.Const(8, 0x80)))
		}
	}
	i.ps.res.Stubs["regexp:NFA-unrolling(symbolic subject bytes assumed ASCII)"] = true
	matched := ts.Bool(false)
	emptyCond := func(p int, op syntax.EmptyOp) *Term {
		r := ts.Bool(true)
		if op&syntax.EmptyBeginText != 0 && p != 0 {
			return ts.Bool(false)
		}
		if op&syntax.EmptyEndText != 0 && p != n {
			return ts.Bool(false)
		}
		if op&syntax.EmptyBeginLine != 0 && p != 0 {
			r = ts.And(r, ts.Cmp("=", bytes[p-1], ts.Const(8, '\n')))
		}
		if op&syntax.EmptyEndLine != 0 && p != n {
			r = ts.And(r, ts.Cmp("=", bytes[p], ts.Const(8, '\n')))
		}
		if op&(syntax.EmptyWordBoundary|syntax.EmptyNoWordBoundary) != 0 {
			w1, w2 := ts.Bool(false), ts.Bool(false)
			if p > 0 {
				w1 = isWordTerm(i, bytes[p-1])
			}
			if p < n {
				w2 = isWordTerm(i, bytes[p])
			}
			diff := ts.Not(ts.Cmp("=", w1, w2))
			if op&syntax.EmptyWordBoundary != 0 {
				r = ts.And(r, diff)
			}
			if op&syntax.EmptyNoWordBoundary != 0 {
				r = ts.And(r, ts.Not(diff))
			}
		}
		return r
	}
	active := make([]*Term, len(prog.Inst))
	for p := 0; p <= n; p++ {
		// seeds: carried-over states plus a fresh start (unanchored search)
		seeds := active
		active = make([]*Term, len(prog.Inst))
		visited := map[[2]int]bool{}
		var add func(pc int, cond *Term)
		add = func(pc int, cond *Term) {
			if cond.IsConst() && cond.val == 0 {
				return
			}
			key := [2]int{pc, cond.id}
			if visited[key] {
				return
			}
			visited[key] = true
			inst := &prog.Inst[pc]
			switch inst.Op {
			case syntax.InstAlt, syntax.InstAltMatch:
				add(int(inst.Out), cond)
				add(int(inst.Arg), cond)
			case syntax.InstCapture, syntax.InstNop:
				add(int(inst.Out), cond)
			case syntax.InstEmptyWidth:
				add(int(inst.Out), ts.And(cond, emptyCond(p, syntax.EmptyOp(inst.Arg))))
			case syntax.InstMatch:
				matched = ts.Or(matched, cond)
			case syntax.InstFail:
			default:
				if active[pc] == nil {
					active[pc] = cond
				} else {
					active[pc] = ts.Or(active[pc], cond)
				}
			}
		}
		for pc, c := range seeds {
			if c != nil {
				add(pc, c)
			}
		}
		add(prog.Start, ts.Bool(true))
		if p == n {
			break
		}
		// consume byte p
		next := make([]*Term, len(prog.Inst))
		for pc, a := range active {
			if a == nil {
				continue
			}
			inst := &prog.Inst[pc]
			c := ts.And(a, runeCond(i, inst, bytes[p]))
			if c.IsConst() && c.val == 0 {
				continue
			}
			out := int(inst.Out)
			if next[out] == nil {
				next[out] = c
			} else {
				next[out] = ts.Or(next[out], c)
			}
		}
		active = next
	}
	return matched
}

func init() {
	externals["regexp.MustCompile"] = func(fr *frame, args []value) value {
		return fr.i.compileRe(goStr(fr.i, args[0]), true)
	}
	externals["regexp.Compile"] = func(fr *frame, args []value) value {
		return fr.i.compileRe(goStr(fr.i, args[0]), false)
	}
	externals["regexp.QuoteMeta"] = func(fr *frame, args []value) value {
		return regexp.QuoteMeta(goStr(fr.i, args[0]))
	}
	externals["(*regexp.Regexp).MatchString"] = func(fr *frame, args []value) value {
		i := fr.i
		r := i.reOf(args[0].(*value))
		if s, ok := args[1].(string); ok {
			return r.re.MatchString(s)
		}
		return valOf(nfaMatch(i, r.prog, strCells(args[1])), types.Bool)
	}
	externals["(*regexp.Regexp).Match"] = func(fr *frame, args []value) value {
		i := fr.i
		r := i.reOf(args[0].(*value))
		cells := args[1].([]value)
		if isConcCells(cells) {
			return r.re.MatchString(goStr(i, mkStr(cells)))
		}
		return valOf(nfaMatch(i, r.prog, cells), types.Bool)
	}
	externals["(*regexp.Regexp).FindStringSubmatch"] = func(fr *frame, args []value) value {
		i := fr.i
		r := i.reOf(args[0].(*value))
		s := goStr(i, args[1]) // concretises a symbolic subject byte by byte
		m := r.re.FindStringSubmatch(s)
		if m == nil {
			return []value(nil)
		}
		out := make([]value, len(m))
		for k, x := range m {
			out[k] = x
		}
		return out
	}
	externals["(*regexp.Regexp).FindString"] = func(fr *frame, args []value) value {
		i := fr.i
		return i.reOf(args[0].(*value)).re.FindString(goStr(i, args[1]))
	}
	externals["(*regexp.Regexp).ReplaceAllString"] = func(fr *frame, args []value) value {
		i := fr.i
		return i.reOf(args[0].(*value)).re.ReplaceAllString(goStr(i, args[1]), goStr(i, args[2]))
	}
	externals["(*regexp.Regexp).String"] = func(fr *frame, args []value) value {
		return fr.i.reOf(args[0].(*value)).expr
	}
}

var _ = fmt.Sprint
