package interp

// gopkg.in/yaml.v2 model: Marshal produces an opaque token document that
// stands for a deep copy of the marshalled value; Unmarshal of a token
// restores a deep copy of that value when the destination type is the type
// that was marshalled. Empty input leaves the destination untouched (as
// yaml.v2 does); any other input is reported as malformed.
// Contract assumed: yaml.v2 round-trips datamon's descriptors.

import (
	"fmt"
	"go/types"
	"strings"
)

const yamlPkg = "gopkg.in/yaml.v2"

type yamlDoc struct {
	t types.Type
	v value
}

func (i *interpreter) yamlDocs() map[string]*yamlDoc {
	m, _ := i.hostState["yaml"].(map[string]*yamlDoc)
	if m == nil {
		m = map[string]*yamlDoc{}
		i.hostState["yaml"] = m
	}
	return m
}

func isImmutableNamed(t types.Type) bool {
	if n, ok := types.Unalias(t).(*types.Named); ok && n.Obj().Pkg() != nil {
		p := n.Obj().Pkg().Path()
		if p == "time" {
			return true
		}
	}
	return false
}

// deepCopyT returns an unaliased copy of v of static type T.
func deepCopyT(T types.Type, v value, memo map[*value]*value) value {
	if isImmutableNamed(T) {
		return copyVal(T, v)
	}
	switch U := T.Underlying().(type) {
	case *types.Struct:
		s := v.(structure)
		out := make(structure, len(s))
		for k := range s {
			out[k] = deepCopyT(U.Field(k).Type(), s[k], memo)
		}
		return out
	case *types.Array:
		a := v.(array)
		out := make(array, len(a))
		for k := range a {
			out[k] = deepCopyT(U.Elem(), a[k], memo)
		}
		return out
	case *types.Slice:
		s := v.([]value)
		if s == nil {
			return []value(nil)
		}
		out := make([]value, len(s))
		for k := range s {
			out[k] = deepCopyT(U.Elem(), s[k], memo)
		}
		return out
	case *types.Pointer:
		p := v.(*value)
		if p == nil {
			return p
		}
		if q, ok := memo[p]; ok {
			return q
		}
		cell := new(value)
		memo[p] = cell
		*cell = deepCopyT(U.Elem(), *p, memo)
		return cell
	case *types.Map:
		m := v.(*omap)
		if m == nil {
			return m
		}
		out := newOmap(U.Key())
		for _, e := range m.live() {
			out.entries = append(out.entries, &mentry{key: deepCopyT(U.Key(), e.key, memo), val: deepCopyT(U.Elem(), e.val, memo)})
			out.n++
			if fastKey(e.key) {
				out.idx[e.key] = out.entries[len(out.entries)-1]
			} else {
				out.hasSlow = true
			}
		}
		return out
	case *types.Interface:
		f := v.(iface)
		if f.t == nil {
			return f
		}
		return iface{t: f.t, v: deepCopyT(f.t, f.v, memo)}
	}
	return v
}

func init() {
	externals[yamlPkg+".Marshal"] = func(fr *frame, args []value) value {
		i := fr.i
		in := args[0].(iface)
		if in.t == nil {
			return tuple{strCellsSlice("null\n"), iface{}}
		}
		T := in.t
		v := in.v
		if pt, ok := T.Underlying().(*types.Pointer); ok {
			p := v.(*value)
			if p == nil {
				return tuple{strCellsSlice("null\n"), iface{}}
			}
			T = pt.Elem()
			v = *p
		}
		docs := i.yamlDocs()
		id := fmt.Sprintf("#YAML:%d:%s\n", len(docs), types.TypeString(T, nil))
		docs[id] = &yamlDoc{t: T, v: deepCopyT(T, v, map[*value]*value{})}
		i.ps.res.Stubs["yaml.v2 Marshal/Unmarshal (opaque round-tripping documents)"] = true
		return tuple{strCellsSlice(id), iface{}}
	}
	externals[yamlPkg+".Unmarshal"] = func(fr *frame, args []value) value {
		i := fr.i
		data := args[0].([]value)
		out := args[1].(iface)
		if len(data) == 0 {
			return iface{}
		}
		s := goStr(i, mkStr(data))
		if strings.TrimSpace(s) == "" || s == "null\n" {
			return iface{}
		}
		doc := i.yamlDocs()[s]
		if doc == nil {
			return i.newError("yaml: unmarshal errors: malformed document")
		}
		pt, ok := out.t.Underlying().(*types.Pointer)
		if !ok {
			return i.newError("yaml: Unmarshal needs a pointer")
		}
		p := out.v.(*value)
		if p == nil {
			return i.newError("yaml: Unmarshal(nil)")
		}
		if !types.Identical(pt.Elem(), doc.t) {
			i.ps.unsupported("yaml model: document of type %s unmarshalled into %s", doc.t, pt.Elem())
		}
		store(doc.t, p, deepCopyT(doc.t, doc.v, map[*value]*value{}))
		return iface{}
	}
	externals[yamlPkg+".UnmarshalStrict"] = externals[yamlPkg+".Unmarshal"]
}

func strCellsSlice(s string) []value {
	c := strCells(s)
	if c == nil {
		return []value{}
	}
	return c
}
