package interp

// Deterministic insertion-ordered maps with support for symbolic keys.

import (
	"go/types"
)

type mentry struct {
	key, val value
	deleted  bool
}

type omap struct {
	keyType types.Type
	entries []*mentry
	idx     map[interface{}]*mentry // fast index for concrete scalar keys
	n       int
	hasSlow bool // some live or past key is not in idx
}

func newOmap(kt types.Type) *omap {
	return &omap{keyType: kt, idx: make(map[interface{}]*mentry)}
}

func fastKey(k value) bool {
	switch k.(type) {
	case bool, int, int8, int16, int32, int64, uint, uint8, uint16, uint32, uint64, uintptr,
		string, *value, *vchan, float32, float64:
		return true
	}
	return false
}

func (m *omap) len() int {
	if m == nil {
		return 0
	}
	return m.n
}

func (m *omap) live() []*mentry {
	var r []*mentry
	for _, e := range m.entries {
		if !e.deleted {
			r = append(r, e)
		}
	}
	return r
}

func (m *omap) find(i *interpreter, k value) *mentry {
	if m == nil {
		return nil
	}
	if fastKey(k) && !m.hasSlow {
		return m.idx[k]
	}
	if fastKey(k) {
		if e := m.idx[k]; e != nil {
			return e
		}
	}
	for _, e := range m.entries {
		if e.deleted {
			continue
		}
		if fastKey(k) && fastKey(e.key) {
			continue // already handled through idx
		}
		if equals(i, m.keyType, e.key, k) {
			return e
		}
	}
	return nil
}

func (m *omap) lookup(i *interpreter, k value) (value, bool) {
	e := m.find(i, k)
	if e == nil {
		return nil, false
	}
	return e.val, true
}

func (m *omap) insert(i *interpreter, k, v value) {
	if e := m.find(i, k); e != nil {
		e.val = v
		return
	}
	e := &mentry{key: k, val: v}
	m.entries = append(m.entries, e)
	m.n++
	if fastKey(k) {
		m.idx[k] = e
	} else {
		m.hasSlow = true
	}
}

func (m *omap) delete(i *interpreter, k value) {
	e := m.find(i, k)
	if e == nil {
		return
	}
	e.deleted = true
	m.n--
	if fastKey(e.key) {
		delete(m.idx, e.key)
	}
	if m.n == 0 {
		m.entries = nil
	}
}

func (m *omap) clear() {
	m.entries = nil
	m.idx = make(map[interface{}]*mentry)
	m.n = 0
	m.hasSlow = false
}
