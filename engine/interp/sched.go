package interp

// Deterministic cooperative runtime: tasks (goroutines of the target program)
// are host goroutines of which exactly one runs at a time (baton passing).
// A task runs until it blocks; then the lowest-numbered ready task runs.

import (
	"fmt"
)

type task struct {
	group int // cooperative task group (vTasks): 0 = none
	id    int
	wake  chan struct{}
	ready func() bool // nil when runnable
	done  bool
	name  string
}

type sched struct {
	// baton mode (vTasks): only tasks of the group holding the baton (and ungrouped tasks) may run;
	// the baton moves at vYield and when a group's main function returns - exactly what the
	// native replay's baton does
	batonOn bool
	baton   int
	alive   []bool // per group (index = group-1): main function still running
	tasks   []*task
	cur     *task
	aborted bool
	endVal  interface{} // the panic value that ended the path (pathEnd or Go panic)
	mainEnd chan struct{}
}

func newSched() *sched {
	s := &sched{mainEnd: make(chan struct{})}
	return s
}

// pick returns the next task to run: the lowest-numbered runnable task other
// than 'not' (nil allowed), or nil.
func (s *sched) pick() *task {
	for _, t := range s.tasks {
		if t.done || !s.eligible(t) {
			continue
		}
		if t.ready == nil || t.ready() {
			return t
		}
	}
	return nil
}

func (s *sched) eligible(t *task) bool {
	return !s.batonOn || t.group == 0 || t.group == s.baton
}

func (s *sched) nextAliveGroup(after int) int {
	n := len(s.alive)
	for k := 1; k <= n; k++ {
		g := (after-1+k)%n + 1
		if s.alive[g-1] {
			return g
		}
	}
	return 0
}

// block suspends the current task until ready() holds.
func (s *sched) block(i *interpreter, ready func() bool, what string) {
	if ready() {
		return
	}
	t := s.cur
	t.ready = ready
	for {
		next := s.pick()
		if next == nil {
			// deadlock: nobody can run.
			t.ready = nil
			panic(pathEnd{"deadlock", fmt.Sprintf("all %d tasks blocked; task %d blocked on %s", s.liveCount(), t.id, what)})
		}
		if next == t {
			t.ready = nil
			return
		}
		s.switchTo(t, next)
		if t.ready == nil || t.ready() {
			t.ready = nil
			return
		}
	}
}

func (s *sched) liveCount() int {
	n := 0
	for _, t := range s.tasks {
		if !t.done {
			n++
		}
	}
	return n
}

// switchTo hands the baton from t to next and waits until t is woken again.
func (s *sched) switchTo(t, next *task) {
	s.cur = next
	next.wake <- struct{}{}
	<-t.wake
	if s.aborted {
		panic(abortTask{})
	}
	s.cur = t
}

// yield lets other runnable tasks run (round robin after the current one).
// yieldAll models sleeping: the other tasks run for as long as any of them can (bounded), then the sleeper goes on.
func (s *sched) yieldAll() {
	for k := 0; k < 64; k++ {
		if !s.yield() {
			return
		}
	}
}

// yield hands the processor to the next runnable task (cyclic order); it reports whether there was one.
func (s *sched) yield() bool {
	t := s.cur
	// find next runnable task after t in cyclic order
	n := len(s.tasks)
	idx := 0
	for k, x := range s.tasks {
		if x == t {
			idx = k
		}
	}
	for k := 1; k < n; k++ {
		x := s.tasks[(idx+k)%n]
		if x.done || !s.eligible(x) {
			continue
		}
		if x.ready == nil || x.ready() {
			s.switchTo(t, x)
			return true
		}
	}
	return false
}

// spawn creates a new task running f; it becomes runnable but does not run yet.
func (s *sched) spawn(i *interpreter, name string, f func()) {
	t := &task{id: len(s.tasks), wake: make(chan struct{}), name: name}
	if s.cur != nil {
		t.group = s.cur.group
	}
	s.tasks = append(s.tasks, t)
	go func() {
		<-t.wake
		if s.aborted {
			return
		}
		s.cur = t
		defer func() {
			r := recover()
			t.done = true
			if _, ok := r.(abortTask); ok {
				return
			}
			if s.aborted {
				return
			}
			if r != nil {
				// path ends here (panic in a task = crash of the program, or pathEnd)
				s.finish(r)
				return
			}
			// normal completion: hand the baton to someone else
			next := s.pick()
			if next == nil {
				s.finish(pathEnd{"deadlock", fmt.Sprintf("task %d finished and all remaining tasks are blocked", t.id)})
				return
			}
			s.cur = next
			next.wake <- struct{}{}
		}()
		f()
	}()
}

// finish ends the path: records the end value, aborts every other task.
func (s *sched) finish(r interface{}) {
	if s.aborted {
		return
	}
	s.aborted = true
	s.endVal = r
	for _, t := range s.tasks {
		if !t.done && t != s.cur {
			// wake it so it can unwind; it will see aborted
			select {
			case t.wake <- struct{}{}:
			default:
				// task never started or is not waiting: start-wait goroutines read wake first
				go func(t *task) { t.wake <- struct{}{} }(t)
			}
		}
	}
	close(s.mainEnd)
}

// ---------------------------------------------------------------------
// Channels.

type pendingSend struct {
	v     value
	taken bool
}

type vchan struct {
	buf         []value
	capacity    int
	closed      bool
	sendq       []*pendingSend
	recvWaiters int
}

func (c *vchan) recvReady() bool {
	return len(c.buf) > 0 || len(c.sendq) > 0 || c.closed
}

func (c *vchan) sendReady() bool {
	if c.closed {
		return true // will panic
	}
	if c.capacity > 0 {
		return len(c.buf) < c.capacity
	}
	return c.recvWaiters > len(c.sendq)
}

func (i *interpreter) chanSend(c *vchan, v value) {
	if c == nil {
		i.sched.block(i, func() bool { return false }, "send on nil channel")
	}
	if c.closed {
		panic(targetPanic{v: "send on closed channel"})
	}
	if c.capacity > 0 {
		i.sched.block(i, func() bool { return c.closed || len(c.buf) < c.capacity }, "chan send")
		if c.closed {
			panic(targetPanic{v: "send on closed channel"})
		}
		c.buf = append(c.buf, v)
		return
	}
	ps := &pendingSend{v: v}
	c.sendq = append(c.sendq, ps)
	i.sched.block(i, func() bool { return ps.taken || c.closed }, "chan send (unbuffered)")
	if !ps.taken {
		panic(targetPanic{v: "send on closed channel"})
	}
}

func (c *vchan) take() (value, bool) {
	if len(c.buf) > 0 {
		v := c.buf[0]
		c.buf = c.buf[1:]
		return v, true
	}
	if len(c.sendq) > 0 {
		ps := c.sendq[0]
		c.sendq = c.sendq[1:]
		ps.taken = true
		return ps.v, true
	}
	return nil, false
}

func (i *interpreter) chanRecv(c *vchan) (value, bool) {
	if c == nil {
		i.sched.block(i, func() bool { return false }, "receive from nil channel")
	}
	if !c.recvReady() {
		c.recvWaiters++
		i.sched.block(i, c.recvReady, "chan receive")
		c.recvWaiters--
	}
	if v, ok := c.take(); ok {
		return v, true
	}
	return nil, false // closed
}

func (i *interpreter) chanClose(c *vchan) {
	if c == nil {
		panic(targetPanic{v: "close of nil channel"})
	}
	if c.closed {
		panic(targetPanic{v: "close of closed channel"})
	}
	c.closed = true
}

// ---------------------------------------------------------------------
// sync models (side tables keyed by the address of the primitive).

type mutexState struct {
	locked  bool
	readers int
}

type wgState struct{ n int64 }

type onceState struct {
	done    bool
	running bool
}

type condState struct {
	waiters int
	signals int
}

func (i *interpreter) mutexOf(p *value) *mutexState {
	m := i.mutexes[p]
	if m == nil {
		m = &mutexState{}
		i.mutexes[p] = m
	}
	return m
}

func (i *interpreter) wgOf(p *value) *wgState {
	m := i.wgs[p]
	if m == nil {
		m = &wgState{}
		i.wgs[p] = m
	}
	return m
}

func (i *interpreter) onceOf(p *value) *onceState {
	m := i.onces[p]
	if m == nil {
		m = &onceState{}
		i.onces[p] = m
	}
	return m
}
