package interp

// sync/atomic on boxed cells (only one task runs at a time, so plain
// read-modify-write is atomic).

import (
	"go/token"
	"go/types"
)

func atomicAdd(fr *frame, args []value) value {
	p := args[0].(*value)
	if p == nil {
		fr.i.rtPanic("invalid memory address or nil pointer dereference")
	}
	*p = binop(fr.i, token.ADD, nil, *p, args[1])
	return *p
}

func atomicLoad(fr *frame, args []value) value {
	p := args[0].(*value)
	if p == nil {
		fr.i.rtPanic("invalid memory address or nil pointer dereference")
	}
	return *p
}

func atomicStore(fr *frame, args []value) value {
	p := args[0].(*value)
	if p == nil {
		fr.i.rtPanic("invalid memory address or nil pointer dereference")
	}
	*p = args[1]
	return nil
}

func atomicSwap(fr *frame, args []value) value {
	p := args[0].(*value)
	old := *p
	*p = args[1]
	return old
}

func atomicCAS(fr *frame, args []value) value {
	i := fr.i
	p := args[0].(*value)
	if p == nil {
		i.rtPanic("invalid memory address or nil pointer dereference")
	}
	eq := binop(i, token.EQL, nil, *p, args[1])
	if i.truth(eq) {
		*p = args[2]
		return true
	}
	return false
}

// typed atomics (atomic.Int64 etc.): the value lives in the field named "v".
func atomicField(fr *frame, recv value) *value {
	p := recv.(*value)
	if p == nil {
		fr.i.rtPanic("invalid memory address or nil pointer dereference")
	}
	st := (*p).(structure)
	// receiver type from the function signature
	rt := fr.fn.Signature.Recv().Type()
	if pt, ok := rt.Underlying().(*types.Pointer); ok {
		rt = pt.Elem()
	}
	s := rt.Underlying().(*types.Struct)
	for k := 0; k < s.NumFields(); k++ {
		if s.Field(k).Name() == "v" {
			return &st[k]
		}
	}
	panic("atomicField: no field v")
}

func init() {
	for _, t := range []string{"Int32", "Int64", "Uint32", "Uint64", "Uintptr"} {
		externals["sync/atomic.Add"+t] = atomicAdd
		externals["sync/atomic.Load"+t] = atomicLoad
		externals["sync/atomic.Store"+t] = atomicStore
		externals["sync/atomic.Swap"+t] = atomicSwap
		externals["sync/atomic.CompareAndSwap"+t] = atomicCAS
		if t != "Uintptr" {
			recv := "(*sync/atomic." + t + ")."
			externals[recv+"Load"] = func(fr *frame, args []value) value { return *atomicField(fr, args[0]) }
			externals[recv+"Store"] = func(fr *frame, args []value) value { *atomicField(fr, args[0]) = args[1]; return nil }
			externals[recv+"Add"] = func(fr *frame, args []value) value {
				f := atomicField(fr, args[0])
				*f = binop(fr.i, token.ADD, nil, *f, args[1])
				return *f
			}
			externals[recv+"Swap"] = func(fr *frame, args []value) value {
				f := atomicField(fr, args[0])
				old := *f
				*f = args[1]
				return old
			}
			externals[recv+"CompareAndSwap"] = func(fr *frame, args []value) value {
				f := atomicField(fr, args[0])
				if fr.i.truth(binop(fr.i, token.EQL, nil, *f, args[1])) {
					*f = args[2]
					return true
				}
				return false
			}
		}
	}
	externals["(*sync/atomic.Bool).Load"] = func(fr *frame, args []value) value {
		v := *atomicField(fr, args[0])
		return fr.i.truth(binop(fr.i, token.NEQ, nil, v, uint32(0)))
	}
	externals["(*sync/atomic.Bool).Store"] = func(fr *frame, args []value) value {
		var u uint32
		if fr.i.truth(args[1]) {
			u = 1
		}
		*atomicField(fr, args[0]) = u
		return nil
	}
	// atomic.Value: stored in a side table keyed by address
	externals["(*sync/atomic.Value).Load"] = func(fr *frame, args []value) value {
		if v, ok := fr.i.atomics[args[0].(*value)]; ok {
			return v
		}
		return iface{}
	}
	externals["(*sync/atomic.Value).Store"] = func(fr *frame, args []value) value {
		fr.i.atomics[args[0].(*value)] = args[1]
		return nil
	}
	externals["sync/atomic.LoadPointer"] = atomicLoad
	externals["sync/atomic.StorePointer"] = atomicStore
}
