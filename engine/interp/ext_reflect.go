package interp

// A small model of package reflect: just enough to walk values (datamon's
// sidecar parameter encoder collects every string field of a struct through
// reflection). A reflect.Value is the zero reflect.Value structure whose first
// cell holds an rvalBox; a reflect.Type is an interface value whose payload is
// an rtypeBox (method calls on it are routed in prepareCall).

import (
	"fmt"
	"go/types"
)

type rvalBox struct {
	t types.Type
	v value
}

type rtypeBox struct {
	t types.Type
}

type hostFn func(fr *frame, args []value) value

func reflectKind(t types.Type) uint {
	switch u := t.Underlying().(type) {
	case *types.Basic:
		switch u.Kind() {
		case types.Bool:
			return 1
		case types.Int:
			return 2
		case types.Int8:
			return 3
		case types.Int16:
			return 4
		case types.Int32:
			return 5
		case types.Int64:
			return 6
		case types.Uint:
			return 7
		case types.Uint8:
			return 8
		case types.Uint16:
			return 9
		case types.Uint32:
			return 10
		case types.Uint64:
			return 11
		case types.Uintptr:
			return 12
		case types.Float32:
			return 13
		case types.Float64:
			return 14
		case types.String:
			return 24
		}
	case *types.Array:
		return 17
	case *types.Chan:
		return 18
	case *types.Signature:
		return 19
	case *types.Interface:
		return 20
	case *types.Map:
		return 21
	case *types.Pointer:
		return 22
	case *types.Slice:
		return 23
	case *types.Struct:
		return 25
	}
	return 0
}

func (i *interpreter) mkReflectValue(t types.Type, v value) value {
	rv := i.P.lookupType("reflect", "Value")
	if rv == nil {
		i.ps.unsupported("reflect.Value type not loaded")
	}
	s := zero(rv).(structure)
	s[0] = rvalBox{t: t, v: v}
	return s
}

func boxOf(i *interpreter, v value) rvalBox {
	s, ok := v.(structure)
	if ok && len(s) > 0 {
		if b, ok := s[0].(rvalBox); ok {
			return b
		}
	}
	i.ps.unsupported("reflect model: not a modelled reflect.Value")
	return rvalBox{}
}

func (i *interpreter) mkReflectType(t types.Type) value {
	return iface{t: i.P.lookupType("reflect", "Value"), v: rtypeBox{t}}
}

func reflectTypeMethod(i *interpreter, name string) hostFn {
	return func(fr *frame, args []value) value {
		rt := args[0].(rtypeBox)
		switch name {
		case "Field":
			st, ok := rt.t.Underlying().(*types.Struct)
			if !ok {
				i.rtPanic("reflect: Field of non-struct type")
			}
			k := int(i.asIntC(args[1]))
			f := st.Field(k)
			sf := zero(i.P.lookupType("reflect", "StructField")).(structure)
			sf[0] = f.Name()
			if !f.Exported() && f.Pkg() != nil {
				sf[1] = f.Pkg().Path()
			} else {
				sf[1] = ""
			}
			sf[2] = i.mkReflectType(f.Type())
			return sf
		case "NumField":
			return rt.t.Underlying().(*types.Struct).NumFields()
		case "Kind":
			return reflectKind(rt.t)
		case "Name":
			if n, ok := types.Unalias(rt.t).(*types.Named); ok {
				return n.Obj().Name()
			}
			return ""
		case "String":
			return types.TypeString(rt.t, nil)
		case "Elem":
			switch u := rt.t.Underlying().(type) {
			case *types.Pointer:
				return i.mkReflectType(u.Elem())
			case *types.Slice:
				return i.mkReflectType(u.Elem())
			case *types.Array:
				return i.mkReflectType(u.Elem())
			}
		}
		i.ps.unsupported("reflect model: Type.%s not modelled", name)
		return nil
	}
}

func init() {
	externals["reflect.ValueOf"] = func(fr *frame, args []value) value {
		in := args[0].(iface)
		fr.i.ps.res.Stubs["reflect (value-walking subset: ValueOf, Kind, NumField, Field, Type.Field, Interface, Len, Index)"] = true
		return fr.i.mkReflectValue(in.t, in.v)
	}
	externals["reflect.TypeOf"] = func(fr *frame, args []value) value {
		in := args[0].(iface)
		return fr.i.mkReflectType(in.t)
	}
	m := func(name string, f func(i *interpreter, b rvalBox, args []value) value) {
		externals["(reflect.Value)."+name] = func(fr *frame, args []value) value {
			return f(fr.i, boxOf(fr.i, args[0]), args)
		}
	}
	m("Kind", func(i *interpreter, b rvalBox, args []value) value {
		if b.t == nil {
			return uint(0)
		}
		return reflectKind(b.t)
	})
	m("IsValid", func(i *interpreter, b rvalBox, args []value) value { return b.t != nil })
	m("Type", func(i *interpreter, b rvalBox, args []value) value { return i.mkReflectType(b.t) })
	m("NumField", func(i *interpreter, b rvalBox, args []value) value {
		st, ok := b.t.Underlying().(*types.Struct)
		if !ok {
			i.rtPanic("reflect: call of reflect.Value.NumField on non-struct Value")
		}
		return st.NumFields()
	})
	m("Field", func(i *interpreter, b rvalBox, args []value) value {
		st, ok := b.t.Underlying().(*types.Struct)
		if !ok {
			i.rtPanic("reflect: call of reflect.Value.Field on non-struct Value")
		}
		k := int(i.asIntC(args[1]))
		return i.mkReflectValue(st.Field(k).Type(), b.v.(structure)[k])
	})
	m("Interface", func(i *interpreter, b rvalBox, args []value) value {
		if _, isIface := b.t.Underlying().(*types.Interface); isIface {
			return b.v
		}
		return iface{t: b.t, v: copyVal(b.t, b.v)}
	})
	m("Len", func(i *interpreter, b rvalBox, args []value) value {
		switch x := b.v.(type) {
		case []value:
			return len(x)
		case array:
			return len(x)
		case string:
			return len(x)
		case symstr:
			return len(x.b)
		case *omap:
			return x.len()
		}
		i.rtPanic("reflect: call of reflect.Value.Len on unsupported Value")
		return 0
	})
	m("Index", func(i *interpreter, b rvalBox, args []value) value {
		k := int(i.asIntC(args[1]))
		switch u := b.t.Underlying().(type) {
		case *types.Slice:
			xs := b.v.([]value)
			if k < 0 || k >= len(xs) {
				i.rtPanic("reflect: slice index out of range")
			}
			return i.mkReflectValue(u.Elem(), xs[k])
		case *types.Array:
			return i.mkReflectValue(u.Elem(), b.v.(array)[k])
		}
		i.rtPanic("reflect: call of reflect.Value.Index on unsupported Value")
		return nil
	})
	m("String", func(i *interpreter, b rvalBox, args []value) value {
		if isStr(b.v) {
			return b.v
		}
		return fmt.Sprintf("<%s Value>", types.TypeString(b.t, nil))
	})
	m("Int", func(i *interpreter, b rvalBox, args []value) value { return asInt64(b.v) })
	m("Bool", func(i *interpreter, b rvalBox, args []value) value { return b.v })
}
