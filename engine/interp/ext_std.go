package interp

// Models of standard-library functions that are not interpreted from source.

import (
	"fmt"
	"go/types"
	"strconv"
	"strings"

	"golang.org/x/tools/go/ssa"
)

// callMethod invokes method name on the dynamic value of recv.
func callMethod(i *interpreter, fr *frame, recv iface, name string, args ...value) (value, bool) {
	if recv.t == nil {
		return nil, false
	}
	ms := i.prog.MethodSets.MethodSet(recv.t)
	for k := 0; k < ms.Len(); k++ {
		sel := ms.At(k)
		if sel.Obj().Name() == name {
			fn := i.prog.MethodValue(sel)
			if fn == nil {
				return nil, false
			}
			return call(i, fr, 0, fn, append([]value{recv.v}, args...)), true
		}
	}
	return nil, false
}

func hasMethod(i *interpreter, t types.Type, name string) *types.Selection {
	if t == nil {
		return nil
	}
	ms := i.prog.MethodSets.MethodSet(t)
	for k := 0; k < ms.Len(); k++ {
		if ms.At(k).Obj().Name() == name {
			return ms.At(k)
		}
	}
	return nil
}

func (i *interpreter) pkgType(pkgPath, name string) types.Type {
	for _, p := range i.prog.AllPackages() {
		if p.Pkg.Path() == pkgPath {
			if o := p.Pkg.Scope().Lookup(name); o != nil {
				return o.Type()
			}
		}
	}
	return nil
}

func (P *Program) lookupType(pkgPath, name string) types.Type {
	P.typeMu.Lock()
	defer P.typeMu.Unlock()
	key := pkgPath + "." + name
	if t, ok := P.typeCache[key]; ok {
		return t
	}
	var res types.Type
	for _, p := range P.Prog.AllPackages() {
		if p.Pkg.Path() == pkgPath {
			if o := p.Pkg.Scope().Lookup(name); o != nil {
				res = o.Type()
			}
			break
		}
	}
	if P.typeCache == nil {
		P.typeCache = map[string]types.Type{}
	}
	P.typeCache[key] = res
	return res
}

// newError builds an error value like errors.New(text).
func (i *interpreter) newError(text value) iface {
	t := i.P.lookupType("errors", "errorString")
	if t == nil {
		panic(pathEnd{"unsupported", "errors.errorString type not found"})
	}
	var cell value = structure{text}
	return iface{t: types.NewPointer(t), v: &cell}
}

func errorsIs(i *interpreter, fr *frame, err, target iface, depth int) bool {
	if depth > 50 {
		return false
	}
	for {
		if err.t == nil {
			return target.t == nil
		}
		if sameType(err.t, target.t) && types.Comparable(err.t) {
			if equals(i, err.t, err.v, target.v) {
				return true
			}
		}
		if sel := hasMethod(i, err.t, "Is"); sel != nil {
			if sig, ok := sel.Type().(*types.Signature); ok && sig.Params().Len() == 1 && sig.Results().Len() == 1 {
				r, _ := callMethod(i, fr, err, "Is", target)
				if i.truth(r) {
					return true
				}
			}
		}
		sel := hasMethod(i, err.t, "Unwrap")
		if sel == nil {
			return false
		}
		sig := sel.Type().(*types.Signature)
		if sig.Params().Len() != 0 || sig.Results().Len() != 1 {
			return false
		}
		r, _ := callMethod(i, fr, err, "Unwrap")
		switch x := r.(type) {
		case iface:
			if x.t == nil {
				return false
			}
			err = x
		case []value:
			for _, e := range x {
				if errorsIs(i, fr, e.(iface), target, depth+1) {
					return true
				}
			}
			return false
		default:
			return false
		}
	}
}

func errorsAs(i *interpreter, fr *frame, err iface, target iface) bool {
	if target.t == nil {
		panic(targetPanic{v: "errors: target cannot be nil"})
	}
	pt, ok := target.t.Underlying().(*types.Pointer)
	if !ok {
		panic(targetPanic{v: "errors: target must be a non-nil pointer"})
	}
	T := pt.Elem()
	p := target.v.(*value)
	for depth := 0; depth < 50; depth++ {
		if err.t == nil {
			return false
		}
		if _, isI := T.Underlying().(*types.Interface); isI {
			if types.AssignableTo(err.t, T) {
				*p = err
				return true
			}
		} else if types.Identical(err.t, T) {
			store(T, p, err.v)
			return true
		}
		if sel := hasMethod(i, err.t, "As"); sel != nil {
			r, _ := callMethod(i, fr, err, "As", target)
			if i.truth(r) {
				return true
			}
		}
		if hasMethod(i, err.t, "Unwrap") == nil {
			return false
		}
		r, _ := callMethod(i, fr, err, "Unwrap")
		x, ok := r.(iface)
		if !ok || x.t == nil {
			return false
		}
		err = x
	}
	return false
}

// errString calls err.Error().
func errString(i *interpreter, fr *frame, err iface) value {
	if err.t == nil {
		return "<nil>"
	}
	r, ok := callMethod(i, fr, err, "Error")
	if !ok {
		return "<error>"
	}
	return r
}

// ---------------------------------------------------------------------
// fmt model: formats into a string value (symbolic strings stay symbolic).

func fmtCells(i *interpreter, fr *frame, verb byte, flags string, arg value) []value {
	// unwrap interface
	if a, ok := arg.(iface); ok {
		if a.t == nil {
			if verb == 'v' || verb == 's' {
				return strCells("<nil>")
			}
			return strCells("%!" + string(verb) + "(<nil>)")
		}
		switch verb {
		case 'T':
			return strCells(types.TypeString(a.t, nil))
		}
		// error / Stringer
		if verb == 'v' || verb == 's' || verb == 'q' || verb == 'w' {
			if hasMethod(i, a.t, "Error") != nil {
				s, _ := callMethod(i, fr, a, "Error")
				return quoteIf(verb, strCells(s))
			}
			if sel := hasMethod(i, a.t, "String"); sel != nil {
				if sig := sel.Type().(*types.Signature); sig.Params().Len() == 0 && sig.Results().Len() == 1 {
					s, _ := callMethod(i, fr, a, "String")
					if isStr(s) {
						return quoteIf(verb, strCells(s))
					}
				}
			}
		}
		return fmtCellsT(i, fr, verb, flags, a.t, a.v)
	}
	return fmtCellsT(i, fr, verb, flags, nil, arg)
}

func quoteIf(verb byte, cells []value) []value {
	if verb != 'q' {
		return cells
	}
	out := []value{uint8('"')}
	out = append(out, cells...)
	return append(out, uint8('"'))
}

func fmtCellsT(i *interpreter, fr *frame, verb byte, flags string, t types.Type, v value) []value {
	switch x := v.(type) {
	case string, symstr:
		switch verb {
		case 'x':
			var out []value
			for _, c := range strCells(x) {
				b := byte(i.asIntC(c))
				out = append(out, strCells(fmt.Sprintf("%02x", b))...)
			}
			return out
		case 'q':
			if s, ok := x.(string); ok {
				return strCells(strconv.Quote(s))
			}
			return quoteIf('q', strCells(x))
		}
		return strCells(x)
	case bool:
		return strCells(fmt.Sprintf("%"+flags+string(verbOr(verb, "tv", 'v')), x))
	case sym:
		if x.k == types.Bool {
			if i.ps.decide(x.t) {
				return strCells("true")
			}
			return strCells("false")
		}
		n := i.asIntC(x)
		if kindSigned(x.k) {
			return strCells(fmt.Sprintf("%"+flags+string(verbOr(verb, "dxXcqobv", 'd')), n))
		}
		return strCells(fmt.Sprintf("%"+flags+string(verbOr(verb, "dxXcqobv", 'd')), uint64(n)))
	case int, int8, int16, int32, int64, uint, uint8, uint16, uint32, uint64, uintptr:
		return strCells(fmt.Sprintf("%"+flags+string(verbOr(verb, "dxXcqobvU", 'd')), x))
	case float32, float64:
		return strCells(fmt.Sprintf("%"+flags+string(verbOr(verb, "feEgGv", 'v')), x))
	case []value:
		// []byte with %s / %x, else element-wise
		if t != nil {
			if st, ok := t.Underlying().(*types.Slice); ok && basicKindOf(st.Elem()) == types.Uint8 {
				switch verb {
				case 's':
					return append([]value{}, x...)
				case 'x':
					var out []value
					for _, c := range x {
						out = append(out, strCells(fmt.Sprintf("%02x", byte(i.asIntC(c))))...)
					}
					return out
				}
			}
		}
		out := []value{uint8('[')}
		for k, e := range x {
			if k > 0 {
				out = append(out, uint8(' '))
			}
			var et types.Type
			if t != nil {
				if st, ok := t.Underlying().(*types.Slice); ok {
					et = st.Elem()
				}
			}
			out = append(out, fmtElem(i, fr, verb, flags, et, e)...)
		}
		return append(out, uint8(']'))
	case *value:
		if x == nil {
			return strCells("<nil>")
		}
		if t != nil {
			if pt, ok := t.Underlying().(*types.Pointer); ok {
				if _, ok := pt.Elem().Underlying().(*types.Struct); ok {
					return append([]value{uint8('&')}, fmtCellsT(i, fr, verb, flags, pt.Elem(), *x)...)
				}
			}
		}
		return strCells("0xc000000000")
	case structure:
		out := []value{uint8('{')}
		var st *types.Struct
		if t != nil {
			st, _ = t.Underlying().(*types.Struct)
		}
		for k, e := range x {
			if k > 0 {
				out = append(out, uint8(' '))
			}
			var ft types.Type
			if st != nil {
				ft = st.Field(k).Type()
				if strings.Contains(flags, "+") {
					out = append(out, strCells(st.Field(k).Name()+":")...)
				}
			}
			out = append(out, fmtElem(i, fr, verb, flags, ft, e)...)
		}
		return append(out, uint8('}'))
	case array:
		out := []value{uint8('[')}
		for k, e := range x {
			if k > 0 {
				out = append(out, uint8(' '))
			}
			out = append(out, fmtElem(i, fr, verb, flags, nil, e)...)
		}
		return append(out, uint8(']'))
	case *omap:
		return strCells("map[...]")
	case iface:
		return fmtCells(i, fr, verb, flags, x)
	case nil:
		return strCells("<nil>")
	}
	return strCells(fmt.Sprintf("<%T>", v))
}

func fmtElem(i *interpreter, fr *frame, verb byte, flags string, t types.Type, e value) []value {
	if t != nil {
		if _, isI := t.Underlying().(*types.Interface); !isI {
			if _, already := e.(iface); !already {
				return fmtCells(i, fr, verb, flags, iface{t: t, v: e})
			}
		}
	}
	return fmtCells(i, fr, verb, flags, e)
}

func verbOr(verb byte, allowed string, def byte) byte {
	if strings.IndexByte(allowed, verb) >= 0 {
		return verb
	}
	return def
}

// sprintf implements the subset of fmt.Sprintf used by the code under test.
// It returns the formatted cells and the operand of the first %w (or nil).
func sprintf(i *interpreter, fr *frame, format string, args []value) ([]value, *iface) {
	var out []value
	var wrapped *iface
	argi := 0
	for p := 0; p < len(format); p++ {
		c := format[p]
		if c != '%' {
			out = append(out, c)
			continue
		}
		p++
		if p >= len(format) {
			out = append(out, strCells("%!(NOVERB)")...)
			break
		}
		start := p
		for p < len(format) && strings.IndexByte("+-# 0123456789.", format[p]) >= 0 {
			p++
		}
		if p >= len(format) {
			break
		}
		flags := format[start:p]
		verb := format[p]
		if verb == '%' {
			out = append(out, uint8('%'))
			continue
		}
		if argi >= len(args) {
			out = append(out, strCells("%!"+string(verb)+"(MISSING)")...)
			continue
		}
		arg := args[argi]
		argi++
		if verb == 'w' {
			if a, ok := arg.(iface); ok && wrapped == nil {
				aa := a
				wrapped = &aa
			}
			verb = 'v'
		}
		cells := fmtCells(i, fr, verb, flags, arg)
		// width padding for strings with simple numeric width (e.g. %5s / %-5s / %05d handled by host for ints)
		out = append(out, cells...)
	}
	if argi < len(args) {
		out = append(out, strCells("%!(EXTRA)")...)
	}
	return out, wrapped
}

func sprint(i *interpreter, fr *frame, args []value, ln bool) []value {
	var out []value
	prevStr := false
	for k, a := range args {
		isS := false
		if ia, ok := a.(iface); ok {
			isS = isStr(ia.v)
		}
		if k > 0 && (ln || (!isS && !prevStr)) {
			out = append(out, uint8(' '))
		}
		out = append(out, fmtCells(i, fr, 'v', "", a)...)
		prevStr = isS
	}
	if ln {
		out = append(out, uint8('\n'))
	}
	return out
}

func init() {
	for k, v := range map[string]externalFn{
		"errors.New": func(fr *frame, args []value) value { return fr.i.newError(args[0]) },
		"(*errors.errorString).Error": func(fr *frame, args []value) value {
			p := args[0].(*value)
			return (*p).(structure)[0]
		},
		"errors.Is": func(fr *frame, args []value) value {
			return errorsIs(fr.i, fr, args[0].(iface), args[1].(iface), 0)
		},
		"errors.As": func(fr *frame, args []value) value {
			return errorsAs(fr.i, fr, args[0].(iface), args[1].(iface))
		},
		"errors.Unwrap": func(fr *frame, args []value) value {
			e := args[0].(iface)
			if sel := hasMethod(fr.i, e.t, "Unwrap"); sel != nil {
				sig := sel.Type().(*types.Signature)
				if sig.Params().Len() == 0 && sig.Results().Len() == 1 {
					if _, ok := sig.Results().At(0).Type().Underlying().(*types.Interface); ok {
						r, _ := callMethod(fr.i, fr, e, "Unwrap")
						return r
					}
				}
			}
			return iface{}
		},
		"fmt.Sprintf": func(fr *frame, args []value) value {
			cells, _ := sprintf(fr.i, fr, goStr(fr.i, args[0]), args[1].([]value))
			return mkStr(cells)
		},
		"fmt.Sprint": func(fr *frame, args []value) value {
			return mkStr(sprint(fr.i, fr, args[0].([]value), false))
		},
		"fmt.Sprintln": func(fr *frame, args []value) value {
			return mkStr(sprint(fr.i, fr, args[0].([]value), true))
		},
		"fmt.Errorf": func(fr *frame, args []value) value {
			i := fr.i
			cells, wrapped := sprintf(i, fr, goStr(i, args[0]), args[1].([]value))
			msg := mkStr(cells)
			if wrapped == nil {
				return i.newError(msg)
			}
			t := i.P.lookupType("fmt", "wrapError")
			if t == nil {
				return i.newError(msg)
			}
			var cell value = structure{msg, *wrapped}
			return iface{t: types.NewPointer(t), v: &cell}
		},
		"(*fmt.wrapError).Error": func(fr *frame, args []value) value {
			return (*args[0].(*value)).(structure)[0]
		},
		"(*fmt.wrapError).Unwrap": func(fr *frame, args []value) value {
			return (*args[0].(*value)).(structure)[1]
		},
		"fmt.Println": func(fr *frame, args []value) value { return tuple{0, iface{}} },
		"fmt.Printf":  func(fr *frame, args []value) value { return tuple{0, iface{}} },
		"fmt.Print":   func(fr *frame, args []value) value { return tuple{0, iface{}} },
		"fmt.Fprintf": func(fr *frame, args []value) value {
			i := fr.i
			cells, _ := sprintf(i, fr, goStr(i, args[1]), args[2].([]value))
			return fprint(i, fr, args[0].(iface), cells)
		},
		"fmt.Fprint": func(fr *frame, args []value) value {
			return fprint(fr.i, fr, args[0].(iface), sprint(fr.i, fr, args[1].([]value), false))
		},
		"fmt.Fprintln": func(fr *frame, args []value) value {
			return fprint(fr.i, fr, args[0].(iface), sprint(fr.i, fr, args[1].([]value), true))
		},
		"strconv.Itoa": func(fr *frame, args []value) value {
			return strconv.Itoa(int(fr.i.asIntC(args[0])))
		},
	} {
		externals[k] = v
	}
}

func fprint(i *interpreter, fr *frame, w iface, cells []value) value {
	if w.t == nil {
		i.rtPanic("invalid memory address or nil pointer dereference")
	}
	// os.Stdout / os.Stderr and other external writers: drop output
	if hasMethod(i, w.t, "Write") == nil {
		return tuple{len(cells), iface{}}
	}
	buf := make([]value, len(cells))
	copy(buf, cells)
	r, ok := callMethod(i, fr, w, "Write", buf)
	if !ok {
		return tuple{len(cells), iface{}}
	}
	return r
}

var _ = ssa.NaiveForm

// ---------------------------------------------------------------------
// time: the package runs from source; the runtime hooks are modelled.
// The clock is a per-path counter of seconds (non-decreasing), no monotonic
// reading, timers and tickers never fire.

func init() {
	for k, v := range map[string]externalFn{
		"time.now": func(fr *frame, args []value) value {
			i := fr.i
			i.clock++
			// the monotonic reading advances with the wall clock (comparisons of two readings
			// taken in one process use it)
			return tuple{int64(i.clock), int32(0), int64(i.clock) * 1000000000}
		},
		"time.runtimeNano": func(fr *frame, args []value) value {
			fr.i.clock++
			return int64(fr.i.clock) * 1000000000
		},
		"time.runtimeNow": func(fr *frame, args []value) value {
			i := fr.i
			i.clock++
			return tuple{int64(i.clock), int32(0), int64(i.clock) * 1000000000}
		},
		"time.initLocal": func(fr *frame, args []value) value { return nil },
		"time.After": func(fr *frame, args []value) value { return &vchan{capacity: 1} },
		"time.Tick":  func(fr *frame, args []value) value { return &vchan{capacity: 1} },
		"time.startTimer": func(fr *frame, args []value) value { return nil },
		"time.stopTimer":  func(fr *frame, args []value) value { return false },
		"time.resetTimer": func(fr *frame, args []value) value { return false },
		"time.newTimer": func(fr *frame, args []value) value {
			return zero(fr.fn.Signature.Results().At(0).Type())
		},
	} {
		externals[k] = v
	}
}
