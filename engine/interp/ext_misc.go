package interp

// Models of third-party functions that depend on randomness or the OS.

import (
	"fmt"
	"go/types"
	"math"
	"strconv"
	"strings"
)

const ksuidPkg = "github.com/segmentio/ksuid"

func init() {
	externals[ksuidPkg+".newRBG"] = func(fr *frame, args []value) value { return iface{} }
	// NewRandomWithTime: 4-byte timestamp + 16-byte payload. The payload is a
	// per-path counter: distinct and increasing (the library's uniqueness /
	// k-sortability contract).
	externals[ksuidPkg+".NewRandomWithTime"] = func(fr *frame, args []value) value {
		i := fr.i
		tt := i.P.lookupType("time", "Time")
		secv, ok := callMethod(i, fr, iface{t: tt, v: args[0]}, "Unix")
		if !ok {
			i.ps.unsupported("time.Time.Unix not available")
		}
		sec := i.asIntC(secv)
		ts := uint32(sec - 1400000000)
		i.serial++
		id := make(array, 20)
		id[0], id[1], id[2], id[3] = uint8(ts>>24), uint8(ts>>16), uint8(ts>>8), uint8(ts)
		for k := 4; k < 20; k++ {
			id[k] = uint8(0)
		}
		s := uint64(i.serial)
		for k := 0; k < 8; k++ {
			id[19-k] = uint8(s >> (8 * k))
		}
		return tuple{id, iface{}}
	}
	// crypto/rand.Read: deterministic counter bytes
	externals["crypto/rand.Read"] = func(fr *frame, args []value) value {
		i := fr.i
		b := args[0].([]value)
		for k := range b {
			i.serial++
			b[k] = uint8(i.serial)
		}
		return tuple{len(b), iface{}}
	}
	externals["math/rand.Intn"] = func(fr *frame, args []value) value { return 0 }
	externals["math/rand.Int63"] = func(fr *frame, args []value) value { fr.i.serial++; return int64(fr.i.serial) }
	externals["math/rand.Seed"] = func(fr *frame, args []value) value { return nil }
}

const backoffPkg = "github.com/cenkalti/backoff/v4"

// backoff: Retry calls the operation until it returns nil, at most R times
// (once for a StopBackOff policy), without sleeping.
func init() {
	newOf := func(name string) externalFn {
		return func(fr *frame, args []value) value {
			t := fr.i.P.lookupType(backoffPkg, name)
			cell := zero(t)
			return &cell
		}
	}
	externals[backoffPkg+".NewExponentialBackOff"] = newOf("ExponentialBackOff")
	externals[backoffPkg+".NewConstantBackOff"] = newOf("ConstantBackOff")
	externals["(*"+backoffPkg+".ExponentialBackOff).Reset"] = func(fr *frame, args []value) value { return nil }
	externals[backoffPkg+".WithContext"] = func(fr *frame, args []value) value { return args[0] }
	externals[backoffPkg+".WithMaxRetries"] = func(fr *frame, args []value) value { return args[0] }
	externals[backoffPkg+".Permanent"] = func(fr *frame, args []value) value {
		i := fr.i
		e := args[0].(iface)
		if e.t == nil {
			return iface{}
		}
		t := i.P.lookupType(backoffPkg, "PermanentError")
		var cell value = structure{e}
		return iface{t: types.NewPointer(t), v: &cell}
	}
	externals["(*"+backoffPkg+".PermanentError).Error"] = func(fr *frame, args []value) value {
		e := (*args[0].(*value)).(structure)[0].(iface)
		return errString(fr.i, fr, e)
	}
	externals["(*"+backoffPkg+".PermanentError).Unwrap"] = func(fr *frame, args []value) value {
		return (*args[0].(*value)).(structure)[0]
	}
	retry := func(fr *frame, args []value) value {
		i := fr.i
		attempts := i.P.RetryAttempts
		if attempts <= 0 {
			attempts = 3
		}
		if b, ok := args[1].(iface); ok && b.t != nil {
			if n := recvNamed(b.t); n != nil && n.Obj().Name() == "StopBackOff" {
				attempts = 1
			}
		}
		i.ps.res.Stubs[fmt.Sprintf("backoff.Retry(at most %d attempts, no sleeping)", attempts)] = true
		var last iface
		for k := 0; k < attempts; k++ {
			r := call(i, fr, 0, args[0], nil)
			e, _ := r.(iface)
			if e.t == nil {
				return iface{}
			}
			if n := recvNamed(e.t); n != nil && n.Obj().Name() == "PermanentError" && n.Obj().Pkg().Path() == backoffPkg {
				return (*e.v.(*value)).(structure)[0]
			}
			last = e
		}
		return last
	}
	externals[backoffPkg+".Retry"] = retry
	externals[backoffPkg+".RetryNotify"] = retry
}

// inertConstructors: constructors of OS-backed objects that datamon creates as
// defaults and that the harnesses always replace (the default localfs backend of
// cafs.New). They return a zero value; using the result ends the path (nil
// interface method call).
func init() {
	for _, name := range []string{
		"github.com/spf13/afero.NewOsFs",
		"github.com/spf13/afero.NewBasePathFs",
		"github.com/spf13/afero.NewMemMapFs",
	} {
		name := name
		externals[name] = func(fr *frame, args []value) value {
			fr.i.ps.res.Stubs["inert default constructor "+name] = true
			return iface{}
		}
	}
}

// math: architecture-specific entry points, on concrete floats (host arithmetic).
func init() {
	f1 := func(f func(float64) float64) externalFn {
		return func(fr *frame, args []value) value { return f(args[0].(float64)) }
	}
	externals["math.archCeil"] = f1(math.Ceil)
	externals["math.archFloor"] = f1(math.Floor)
	externals["math.archTrunc"] = f1(math.Trunc)
	externals["math.archSqrt"] = f1(math.Sqrt)
	externals["math.archLog"] = f1(math.Log)
	externals["math.archExp"] = f1(math.Exp)
	externals["math.Ceil"] = f1(math.Ceil)
	externals["math.Floor"] = f1(math.Floor)
	externals["math.Sqrt"] = f1(math.Sqrt)
}

// os error classification: by the rendered message (the file-system stubs of the harnesses
// build their errors from "file does not exist" / "file already exists").
func init() {
	errText := func(fr *frame, e value) string {
		ei, ok := e.(iface)
		if !ok || ei.t == nil {
			return ""
		}
		s, ok := callMethod(fr.i, fr, ei, "Error")
		if !ok {
			return ""
		}
		return goStr(fr.i, s)
	}
	externals["os.IsNotExist"] = func(fr *frame, args []value) value {
		t := errText(fr, args[0])
		return strings.Contains(t, "does not exist") || strings.Contains(t, "no such file")
	}
	externals["os.IsExist"] = func(fr *frame, args []value) value {
		t := errText(fr, args[0])
		return strings.Contains(t, "already exists") || strings.Contains(t, "file exists")
	}
}

// datamon/pkg/convert: unsafe reinterpretations, modelled as the conversions they implement.
// jacobsa/fuse: the dirent encoder (Linux fuse_dirent layout) and the server constructor.
func init() {
	const conv = "github.com/oneconcern/datamon/pkg/convert."
	externals[conv+"UnsafeStringToBytes"] = func(fr *frame, args []value) value {
		c := strCells(args[0])
		out := make([]value, len(c))
		copy(out, c)
		return out
	}
	externals[conv+"UnsafeBytesToString"] = func(fr *frame, args []value) value {
		return mkStr(args[0].([]value))
	}
	externals["github.com/jacobsa/fuse/fuseutil.NewFileSystemServer"] = func(fr *frame, args []value) value {
		fr.i.ps.res.Stubs["fuseutil.NewFileSystemServer (inert)"] = true
		return iface{}
	}
	// func WriteDirent(buf []byte, d Dirent) (n int); Dirent{Offset, Inode, Name, Type}
	externals["github.com/jacobsa/fuse/fuseutil.WriteDirent"] = func(fr *frame, args []value) value {
		i := fr.i
		buf := args[0].([]value)
		d := args[1].(structure)
		off := uint64(i.asIntC(d[0]))
		ino := uint64(i.asIntC(d[1]))
		name := strCells(d[2])
		typ := uint32(i.asIntC(d[3]))
		pad := 0
		if len(name)%8 != 0 {
			pad = 8 - len(name)%8
		}
		total := 24 + len(name) + pad
		if total > len(buf) {
			return 0
		}
		put := func(at int, v uint64, n int) {
			for k := 0; k < n; k++ {
				buf[at+k] = uint8(v >> (8 * uint(k)))
			}
		}
		put(0, ino, 8)
		put(8, off, 8)
		put(16, uint64(len(name)), 4)
		put(20, uint64(typ), 4)
		for k, c := range name {
			buf[24+k] = c
		}
		for k := 0; k < pad; k++ {
			buf[24+len(name)+k] = uint8(0)
		}
		i.ps.res.Stubs["fuseutil.WriteDirent (fuse_dirent layout: ino, off, namelen, type, name, padding to 8)"] = true
		return total
	}
}

// fmt.Sscanf: literal text and %d verbs over a concrete input (what datamon's chunk-name parser uses).
func init() {
	externals["fmt.Sscanf"] = func(fr *frame, args []value) value {
		i := fr.i
		in := goStr(i, args[0])
		format := goStr(i, args[1])
		var dests []value
		if args[2] != nil {
			dests = args[2].([]value)
		}
		n, p := 0, 0
		fail := func(msg string) value { return tuple{n, i.newError(msg)} }
		for f := 0; f < len(format); f++ {
			c := format[f]
			if c != '%' {
				if p >= len(in) {
					return fail("unexpected EOF")
				}
				if in[p] != c {
					return fail("input does not match format")
				}
				p++
				continue
			}
			f++
			if f >= len(format) || format[f] != 'd' {
				i.ps.unsupported("fmt.Sscanf model: only %%d is supported (format %q)", format)
			}
			if n >= len(dests) {
				return fail("too few operands for format '%d'")
			}
			dk := basicKindOf(dests[n].(iface).t.Underlying().(*types.Pointer).Elem().Underlying())
			unsigned := dk == types.Uint || dk == types.Uint8 || dk == types.Uint16 || dk == types.Uint32 || dk == types.Uint64 || dk == types.Uintptr
			start := p
			if !unsigned && p < len(in) && (in[p] == '-' || in[p] == '+') { // fmt accepts no sign for unsigned operands
				p++
			}
			ds := p
			for p < len(in) && in[p] >= '0' && in[p] <= '9' {
				p++
			}
			if p == ds {
				if p >= len(in) {
					return fail("unexpected EOF")
				}
				return fail("expected integer")
			}
			var u uint64
			if unsigned {
				u2, err2 := strconv.ParseUint(in[start:p], 10, 64)
				if err2 != nil {
					return fail("unsigned integer overflow")
				}
				u = u2
			} else {
				v, err := strconv.ParseInt(in[start:p], 10, 64)
				if err != nil {
					return fail("integer overflow")
				}
				u = uint64(v)
			}
			d := dests[n].(iface)
			ptr := d.v.(*value)
			pt := d.t.Underlying().(*types.Pointer)
			k := basicKindOf(pt.Elem().Underlying())
			*ptr = mkInt(k, u)
			n++
		}
		return tuple{n, iface{}}
	}
}
