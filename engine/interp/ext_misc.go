package interp

// Models of third-party functions that depend on randomness or the OS.

import (
	"go/types"
)

const ksuidPkg = "github.com/segmentio/ksuid"

func init() {
	externals[ksuidPkg+".newRBG"] = func(fr *frame, args []value) value { return iface{} }
	// NewRandomWithTime: 4-byte timestamp + 16-byte payload. The payload is a
	// per-path counter: distinct and increasing (the library's uniqueness /
	// k-sortability contract).
	externals[ksuidPkg+".NewRandomWithTime"] = func(fr *frame, args []value) value {
		i := fr.i
		tt := i.P.lookupType("time", "Time")
		secv, ok := callMethod(i, fr, iface{t: tt, v: args[0]}, "Unix")
		if !ok {
			i.ps.unsupported("time.Time.Unix not available")
		}
		sec := i.asIntC(secv)
		ts := uint32(sec - 1400000000)
		i.serial++
		id := make(array, 20)
		id[0], id[1], id[2], id[3] = uint8(ts>>24), uint8(ts>>16), uint8(ts>>8), uint8(ts)
		for k := 4; k < 20; k++ {
			id[k] = uint8(0)
		}
		s := uint64(i.serial)
		for k := 0; k < 8; k++ {
			id[19-k] = uint8(s >> (8 * k))
		}
		return tuple{id, iface{}}
	}
	// crypto/rand.Read: deterministic counter bytes
	externals["crypto/rand.Read"] = func(fr *frame, args []value) value {
		i := fr.i
		b := args[0].([]value)
		for k := range b {
			i.serial++
			b[k] = uint8(i.serial)
		}
		return tuple{len(b), iface{}}
	}
	externals["math/rand.Intn"] = func(fr *frame, args []value) value { return 0 }
	externals["math/rand.Int63"] = func(fr *frame, args []value) value { fr.i.serial++; return int64(fr.i.serial) }
	externals["math/rand.Seed"] = func(fr *frame, args []value) value { return nil }
}

var _ = types.Typ
