package interp

// Intrinsics: the harness API (v*), models of sync / atomic / runtime
// primitives and of functions that cannot be interpreted from source.

import (
	"fmt"
	"go/types"
	"sort"
	"strings"

	"golang.org/x/tools/go/ssa"
)

type externalFn func(fr *frame, args []value) value

// Key strings are from Function.String().
var externals = make(map[string]externalFn)

// harnessAPI: functions of the injected zz_verif_api.go file, by name.
var harnessAPI = make(map[string]externalFn)

// noopPkgs: calls into these packages return zero values (logging, metrics, tracing).
var noopPkgs = []string{
	"go.uber.org/zap",
	"go.uber.org/zap/zapcore",
	"go.opencensus.io/",
	"github.com/opentracing/",
	"log",
	"runtime/debug",
	"runtime/pprof",
	"runtime/trace",
	"os/signal",
	"internal/godebug",
	"github.com/oneconcern/datamon/pkg/metrics",
}

func isNoopPkg(path string) bool {
	for _, p := range noopPkgs {
		if path == p || (strings.HasSuffix(p, "/") && strings.HasPrefix(path, p)) || strings.HasPrefix(path, p+"/") {
			return true
		}
	}
	return false
}

func zeroResults(fn *ssa.Function) value {
	res := fn.Signature.Results()
	switch res.Len() {
	case 0:
		return nil
	case 1:
		return zero(res.At(0).Type())
	}
	return zero(res)
}

func callExternalFallback(fr *frame, fn *ssa.Function, name string, args []value) value {
	i := fr.i
	if fn.Name() == "init" || strings.HasPrefix(fn.Name(), "init#") {
		return nil
	}
	pkgPath := ""
	if fn.Pkg != nil {
		pkgPath = fn.Pkg.Pkg.Path()
	} else if fn.Signature.Recv() != nil {
		// method of a type from an external package (possibly a wrapper)
		if n := recvNamed(fn.Signature.Recv().Type()); n != nil && n.Obj().Pkg() != nil {
			pkgPath = n.Obj().Pkg().Path()
		}
	}
	if isNoopPkg(pkgPath) {
		if i.ps != nil {
			i.ps.res.Stubs["noop:"+pkgPath] = true
		}
		return zeroResults(fn)
	}
	// synthetic wrappers/thunks/bounds of external methods: try the underlying method name
	if fn.Synthetic != "" {
		if obj, ok := fn.Object().(*types.Func); ok && obj != nil {
			if sig, ok := obj.Type().(*types.Signature); ok && sig.Recv() != nil {
				// try both pointer and value receiver spellings
				n := recvNamed(sig.Recv().Type())
				if n != nil {
					q := n.Obj().Name()
					if n.Obj().Pkg() != nil {
						q = n.Obj().Pkg().Path() + "." + q
					}
					for _, cand := range []string{"(*" + q + ")." + obj.Name(), "(" + q + ")." + obj.Name()} {
						if ext := externals[cand]; ext != nil {
							return ext(fr, args)
						}
					}
				}
			}
		}
	}
	if i.ps == nil {
		panic(pathEnd{"unsupported", "external function without model: " + name})
	}
	i.ps.unsupported("external function without model: %s", name)
	return nil
}

func recvNamed(t types.Type) *types.Named {
	if p, ok := t.(*types.Pointer); ok {
		t = p.Elem()
	}
	n, _ := types.Unalias(t).(*types.Named)
	return n
}

func goStr(i *interpreter, v value) string {
	switch s := v.(type) {
	case string:
		return s
	case symstr:
		// concretise every byte
		bs := make([]byte, len(s.b))
		for k, c := range s.b {
			bs[k] = byte(i.asIntC(c))
		}
		return string(bs)
	}
	panic(fmt.Sprintf("goStr: %T", v))
}

func boolTerm(i *interpreter, v value) *Term {
	t, k := i.termOf(v)
	if k != types.Bool {
		panic("boolTerm: not a bool")
	}
	return t
}

func init() {
	for k, v := range map[string]externalFn{
		// ---- harness API ----
		"vInt":     extVInt(types.Int),
		"vI64":     extVInt(types.Int64),
		"vU64":     extVInt(types.Uint64),
		"vU32":     extVInt(types.Uint32),
		"vByte":    extVInt(types.Uint8),
		"vBool":    extVBool,
		"vBytes":   extVBytes,
		"vString":  extVString,
		"vChoose": func(fr *frame, args []value) value {
			i := fr.i
			name := goStr(i, args[0])
			k := int(i.asIntC(args[1]))
			if k <= 0 {
				panic(pathEnd{"unsupported", "vChoose with k <= 0"})
			}
			t := i.ps.newVar(name, 64)
			i.ps.res.Bounds[name] = [2]int64{0, int64(k - 1)}
			if k == 1 {
				i.ps.solver.Assert(i.ts.Cmp("=", t, i.ts.Const(64, 0)))
				return 0
			}
			return int(i.ps.chooseFresh(t, k))
		},
		"vConcrete": func(fr *frame, args []value) value {
			return int(fr.i.asIntC(args[0]))
		},
		"vConcreteStr": func(fr *frame, args []value) value {
			return goStr(fr.i, args[0])
		},
		"vAssume": func(fr *frame, args []value) value {
			fr.i.ps.assume(boolTerm(fr.i, args[0]))
			return nil
		},
		"vAssert": func(fr *frame, args []value) value {
			fr.i.ps.assertProp(boolTerm(fr.i, args[0]), goStr(fr.i, args[1]))
			return nil
		},
		"vCover": func(fr *frame, args []value) value {
			fr.i.ps.cover(goStr(fr.i, args[0]))
			return nil
		},
		"vAnd": func(fr *frame, args []value) value {
			return valOf(fr.i.ts.And(boolTerm(fr.i, args[0]), boolTerm(fr.i, args[1])), types.Bool)
		},
		"vOr": func(fr *frame, args []value) value {
			return valOf(fr.i.ts.Or(boolTerm(fr.i, args[0]), boolTerm(fr.i, args[1])), types.Bool)
		},
		"vNot": func(fr *frame, args []value) value {
			return valOf(fr.i.ts.Not(boolTerm(fr.i, args[0])), types.Bool)
		},
		"vImplies": func(fr *frame, args []value) value {
			return valOf(fr.i.ts.Or(fr.i.ts.Not(boolTerm(fr.i, args[0])), boolTerm(fr.i, args[1])), types.Bool)
		},
		"vIte": func(fr *frame, args []value) value {
			i := fr.i
			c := boolTerm(i, args[0])
			a, k := i.termOf(args[1])
			b, _ := i.termOf(args[2])
			return valOf(i.ts.Ite(c, a, b), k)
		},
		"vIteByte": func(fr *frame, args []value) value {
			i := fr.i
			c := boolTerm(i, args[0])
			a, k := i.termOf(args[1])
			b, _ := i.termOf(args[2])
			return valOf(i.ts.Ite(c, a, b), k)
		},
		"vBytesEqual": func(fr *frame, args []value) value {
			i := fr.i
			a, b := args[0].([]value), args[1].([]value)
			if len(a) != len(b) {
				return false
			}
			return valOf(strEqTerm(i, symstr{a}, symstr{b}), types.Bool)
		},
		"vStrEqual": func(fr *frame, args []value) value {
			return valOf(strEqTerm(fr.i, args[0], args[1]), types.Bool)
		},
		"vObserve": func(fr *frame, args []value) value {
			i := fr.i
			i.ps.observes = append(i.ps.observes, Observation{goStr(i, args[0]), args[1]})
			return nil
		},
		"vBudget": func(fr *frame, args []value) value {
			fr.i.ps.budget = fr.i.asIntC(args[0])
			return nil
		},
		"vUnwind": func(fr *frame, args []value) value {
			fr.i.ps.unwind = int(fr.i.asIntC(args[0]))
			return nil
		},
		"vTerminates": func(fr *frame, args []value) value {
			fr.i.ps.termClaim = true
			return nil
		},
		"vAssertR": func(fr *frame, args []value) value {
			i := fr.i
			i.ps.assertRegion(boolTerm(i, args[0]), goStr(i, args[1]), goStr(i, args[2]), boolTerm(i, args[3]))
			return nil
		},
		"vKnownCrash": func(fr *frame, args []value) value {
			i := fr.i
			i.ps.crashRegions = append(i.ps.crashRegions, crashRegion{goStr(i, args[0]), boolTerm(i, args[1])})
			return nil
		},
		"vThorough": func(fr *frame, args []value) value { return fr.i.P.Tier == "thorough" },
		"vSymbolic": func(fr *frame, args []value) value { return true },
		"vYield": func(fr *frame, args []value) value {
			i := fr.i
			s := i.sched
			if s.batonOn && s.cur.group != 0 {
				me := s.cur.group
				if nx := s.nextAliveGroup(me); nx != 0 && nx != me {
					s.baton = nx
					s.block(i, func() bool { return !s.batonOn || s.baton == me }, "vYield (baton)")
				}
				return nil
			}
			s.yield()
			return nil
		},
		"vTasksBegin": func(fr *frame, args []value) value {
			s := fr.i.sched
			n := int(fr.i.asIntC(args[0]))
			s.alive = make([]bool, n)
			for k := range s.alive {
				s.alive[k] = true
			}
			s.baton = 1
			s.batonOn = true
			return nil
		},
		"vTaskEnter": func(fr *frame, args []value) value {
			i := fr.i
			s := i.sched
			g := int(i.asIntC(args[0])) + 1
			s.cur.group = g
			s.block(i, func() bool { return !s.batonOn || s.baton == g }, "vTaskEnter (baton)")
			return nil
		},
		"vTaskExit": func(fr *frame, args []value) value {
			s := fr.i.sched
			g := int(fr.i.asIntC(args[0])) + 1
			s.alive[g-1] = false
			s.cur.group = 0
			if s.baton == g {
				s.baton = s.nextAliveGroup(g)
				if s.baton == 0 {
					s.batonOn = false
				}
			}
			return nil
		},
		"vTasksEnd": func(fr *frame, args []value) value {
			fr.i.sched.batonOn = false
			return nil
		},
		"vFresh": func(fr *frame, args []value) value {
			fr.i.serial++
			return int(fr.i.serial)
		},
	} {
		harnessAPI[k] = v
	}

	for k, v := range map[string]externalFn{
		// ---- sync ----
		"(*sync.Mutex).Lock":      extMutexLock,
		"(*sync.Mutex).Unlock":    extMutexUnlock,
		"(*sync.Mutex).TryLock":   extMutexTryLock,
		"(*sync.RWMutex).Lock":    extMutexLock,
		"(*sync.RWMutex).Unlock":  extMutexUnlock,
		"(*sync.RWMutex).RLock":   extRLock,
		"(*sync.RWMutex).RUnlock": extRUnlock,
		"(*sync.WaitGroup).Add": func(fr *frame, args []value) value {
			w := fr.i.wgOf(args[0].(*value))
			w.n += fr.i.asIntC(args[1])
			if w.n < 0 {
				panic(targetPanic{v: "sync: negative WaitGroup counter"})
			}
			return nil
		},
		"(*sync.WaitGroup).Done": func(fr *frame, args []value) value {
			w := fr.i.wgOf(args[0].(*value))
			w.n--
			if w.n < 0 {
				panic(targetPanic{v: "sync: negative WaitGroup counter"})
			}
			return nil
		},
		"(*sync.WaitGroup).Wait": func(fr *frame, args []value) value {
			w := fr.i.wgOf(args[0].(*value))
			fr.i.sched.block(fr.i, func() bool { return w.n == 0 }, "WaitGroup.Wait")
			return nil
		},
		"(*sync.Once).Do": func(fr *frame, args []value) value {
			i := fr.i
			o := i.onceOf(args[0].(*value))
			if o.done {
				return nil
			}
			if o.running {
				i.sched.block(i, func() bool { return o.done }, "Once.Do")
				return nil
			}
			o.running = true
			defer func() { o.done = true; o.running = false }()
			call(i, fr, 0, args[1], nil)
			return nil
		},
		"(*sync.Pool).Get": func(fr *frame, args []value) value {
			// no pooling: always call New
			p := args[0].(*value)
			st := (*p).(structure)
			// field "New" is the last field
			newf := st[len(st)-1]
			switch f := newf.(type) {
			case *ssa.Function:
				if f == nil {
					return iface{}
				}
			case *closure:
				if f == nil {
					return iface{}
				}
			}
			return call(fr.i, fr, 0, newf, nil)
		},
		"(*sync.Pool).Put": func(fr *frame, args []value) value { return nil },

		// ---- runtime ----
		"runtime.Gosched": func(fr *frame, args []value) value { fr.i.sched.yield(); return nil },
		"runtime.GC":      func(fr *frame, args []value) value { return nil },
		"runtime.NumCPU":  func(fr *frame, args []value) value { return 4 },
		"runtime.GOMAXPROCS": func(fr *frame, args []value) value { return 4 },
		"runtime.NumGoroutine": func(fr *frame, args []value) value { return fr.i.sched.liveCount() },
		"runtime.KeepAlive": func(fr *frame, args []value) value { return nil },
		"runtime.SetFinalizer": func(fr *frame, args []value) value { return nil },
		"runtime.Caller": func(fr *frame, args []value) value {
			return tuple{uintptr(0), "", 0, false}
		},
		"time.Sleep": func(fr *frame, args []value) value { fr.i.sched.yieldAll(); return nil },
		"os.Exit": func(fr *frame, args []value) value {
			panic(targetPanic{v: fmt.Sprintf("os.Exit(%d)", fr.i.asIntC(args[0]))})
		},
		"os.Getenv": func(fr *frame, args []value) value { return "" },
		"os.LookupEnv": func(fr *frame, args []value) value { return tuple{"", false} },
	} {
		externals[k] = v
	}
}

func extVInt(k types.BasicKind) externalFn {
	return func(fr *frame, args []value) value {
		i := fr.i
		name := goStr(i, args[0])
		w := kindWidth(k)
		t := i.ps.newVar(name, w)
		lo, hi := args[1], args[2]
		tlo, _ := i.termOf(lo)
		thi, _ := i.termOf(hi)
		var c *Term
		if kindSigned(k) {
			c = i.ts.And(i.ts.Cmp("bvsle", tlo, t), i.ts.Cmp("bvsle", t, thi))
		} else {
			c = i.ts.And(i.ts.Cmp("bvule", tlo, t), i.ts.Cmp("bvule", t, thi))
		}
		if tlo.IsConst() && thi.IsConst() {
			i.ps.res.Bounds[name] = [2]int64{int64(tlo.val), int64(thi.val)}
			if tlo.val == thi.val {
				i.ps.solver.Assert(c)
				return valOf(tlo, k)
			}
		}
		i.ps.assume(c)
		return sym{t, k}
	}
}

func extVBool(fr *frame, args []value) value {
	i := fr.i
	name := goStr(i, args[0])
	return sym{i.ps.newVar(name, 0), types.Bool}
}

func extVBytes(fr *frame, args []value) value {
	i := fr.i
	name := goStr(i, args[0])
	n := int(i.asIntC(args[1]))
	out := make([]value, n)
	for k := range out {
		out[k] = sym{i.ps.newVar(fmt.Sprintf("%s[%d]", name, k), 8), types.Uint8}
	}
	return out
}

func extVString(fr *frame, args []value) value {
	i := fr.i
	name := goStr(i, args[0])
	n := int(i.asIntC(args[1]))
	out := make([]value, n)
	for k := range out {
		out[k] = sym{i.ps.newVar(fmt.Sprintf("%s[%d]", name, k), 8), types.Uint8}
	}
	return mkStr(out)
}

func extMutexLock(fr *frame, args []value) value {
	i := fr.i
	p := args[0].(*value)
	if p == nil {
		i.rtPanic("invalid memory address or nil pointer dereference")
	}
	m := i.mutexOf(p)
	i.sched.block(i, func() bool { return !m.locked && m.readers == 0 }, "Mutex.Lock")
	m.locked = true
	return nil
}

func extMutexTryLock(fr *frame, args []value) value {
	m := fr.i.mutexOf(args[0].(*value))
	if m.locked || m.readers > 0 {
		return false
	}
	m.locked = true
	return true
}

// fatalError models Go's unrecoverable "fatal error" (e.g. unlock of unlocked mutex).
type fatalError struct{ msg string }

func extMutexUnlock(fr *frame, args []value) value {
	i := fr.i
	m := i.mutexOf(args[0].(*value))
	if !m.locked {
		panic(pathEnd{"fatal", "fatal error: sync: unlock of unlocked mutex"})
	}
	m.locked = false
	return nil
}

func extRLock(fr *frame, args []value) value {
	i := fr.i
	m := i.mutexOf(args[0].(*value))
	i.sched.block(i, func() bool { return !m.locked }, "RWMutex.RLock")
	m.readers++
	return nil
}

func extRUnlock(fr *frame, args []value) value {
	i := fr.i
	m := i.mutexOf(args[0].(*value))
	if m.readers <= 0 {
		panic(pathEnd{"fatal", "fatal error: sync: RUnlock of unlocked RWMutex"})
	}
	m.readers--
	return nil
}

var _ = sort.Strings
