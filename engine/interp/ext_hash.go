package interp

// Model of github.com/minio/blake2b-simd: the digest is an injective
// uninterpreted function of (configuration, input).
//
// Every digest is concrete: for a concrete input it is derived (with SHA-256)
// from configuration and input; for an input with symbolic bytes the path
// forks on whether the input equals the input of an earlier application with
// the same configuration and length (then the digests are the same) or
// differs from all of them (then it gets a fresh digest). This is the exact
// semantics of an injective function, by case split instead of Ackermann
// constraints, and keeps all keys derived from digests concrete.

import (
	"crypto/sha256"
	"fmt"
	"go/types"
	"strings"
)

const blakePkg = "github.com/minio/blake2b-simd"

type hashState struct {
	cfg  string
	size int
	data []value
}

type hashApp struct {
	cfg  string
	data []value
	tag  []byte
}

func (i *interpreter) hashers() map[*value]*hashState {
	m, _ := i.hostState["hashers"].(map[*value]*hashState)
	if m == nil {
		m = map[*value]*hashState{}
		i.hostState["hashers"] = m
	}
	return m
}

func renderCfg(i *interpreter, v value, sb *strings.Builder) {
	switch x := v.(type) {
	case *value:
		if x == nil {
			sb.WriteString("nil")
			return
		}
		sb.WriteByte('&')
		renderCfg(i, *x, sb)
	case structure:
		sb.WriteByte('{')
		for _, f := range x {
			renderCfg(i, f, sb)
			sb.WriteByte(',')
		}
		sb.WriteByte('}')
	case []value:
		sb.WriteByte('[')
		for _, f := range x {
			renderCfg(i, f, sb)
			sb.WriteByte(',')
		}
		sb.WriteByte(']')
	case sym:
		if x.k == types.Bool {
			fmt.Fprint(sb, i.ps.decide(x.t))
		} else {
			fmt.Fprint(sb, i.asIntC(x))
		}
	default:
		fmt.Fprint(sb, x)
	}
}

func digestOf(parts ...[]byte) []byte {
	hh := sha256.New()
	for _, p := range parts {
		hh.Write(p)
		hh.Write([]byte{0xff, 0x00})
	}
	s1 := hh.Sum(nil)
	hh.Write([]byte("more"))
	s2 := hh.Sum(nil)
	return append(s1, s2...)
}

func (i *interpreter) hashSum(h *hashState) []value {
	apps, _ := i.hostState["hashApps"].([]*hashApp)
	allc := isConcCells(h.data)
	var tag []byte
	if allc {
		bs := make([]byte, len(h.data))
		for k, c := range h.data {
			bs[k] = c.(uint8)
		}
		tag = digestOf([]byte("conc"), []byte(h.cfg), bs)
		// an earlier symbolic application may have had equal input: decide
		for _, a := range apps {
			if a.cfg == h.cfg && len(a.data) == len(h.data) && !isConcCells(a.data) {
				if i.ps.decide(strEqTerm(i, symstr{a.data}, symstr{h.data})) {
					tag = a.tag
					break
				}
			}
		}
	} else {
		for _, a := range apps {
			if a.cfg == h.cfg && len(a.data) == len(h.data) {
				if sameCells(a.data, h.data) || i.ps.decide(strEqTerm(i, symstr{a.data}, symstr{h.data})) {
					tag = a.tag
					break
				}
			}
		}
		if tag == nil {
			tag = digestOf([]byte("sym"), []byte(h.cfg), []byte(fmt.Sprint(len(apps))))
		}
	}
	app := &hashApp{cfg: h.cfg, data: append([]value(nil), h.data...), tag: tag}
	i.hostState["hashApps"] = append(apps, app)
	out := make([]value, h.size)
	for k := range out {
		out[k] = tag[k%len(tag)]
	}
	return out
}

func sameCells(a, b []value) bool {
	if len(a) != len(b) {
		return false
	}
	for k := range a {
		if a[k] != b[k] {
			return false
		}
	}
	return true
}

func isConcCells(a []value) bool {
	for _, c := range a {
		if _, ok := c.(uint8); !ok {
			return false
		}
	}
	return true
}

func init() {
	externals[blakePkg+".New"] = func(fr *frame, args []value) value {
		i := fr.i
		t := i.P.lookupType(blakePkg, "digest")
		if t == nil {
			i.ps.unsupported("blake2b digest type not found")
		}
		var sb strings.Builder
		renderCfg(i, args[0], &sb)
		size := 64
		if p, ok := args[0].(*value); ok && p != nil {
			size = int(i.asIntC((*p).(structure)[0]))
		}
		if size == 0 {
			size = 64
		}
		cell := zero(t)
		p := &cell
		i.hashers()[p] = &hashState{cfg: sb.String(), size: size}
		return tuple{iface{t: types.NewPointer(t), v: p}, iface{}}
	}
	externals["(*"+blakePkg+".digest).Write"] = func(fr *frame, args []value) value {
		h := fr.i.hashers()[args[0].(*value)]
		data := args[1].([]value)
		h.data = append(h.data, data...)
		return tuple{len(data), iface{}}
	}
	externals["(*"+blakePkg+".digest).Sum"] = func(fr *frame, args []value) value {
		h := fr.i.hashers()[args[0].(*value)]
		var in []value
		if args[1] != nil {
			in = args[1].([]value)
		}
		return append(in[:len(in):len(in)], fr.i.hashSum(h)...)
	}
	externals["(*"+blakePkg+".digest).Reset"] = func(fr *frame, args []value) value {
		h := fr.i.hashers()[args[0].(*value)]
		h.data = nil
		return nil
	}
	externals["(*"+blakePkg+".digest).Size"] = func(fr *frame, args []value) value {
		return fr.i.hashers()[args[0].(*value)].size
	}
	externals["(*"+blakePkg+".digest).BlockSize"] = func(fr *frame, args []value) value { return 128 }
}
