package interp

// SMT solver session over a pipe (z3 -in / cvc5 --incremental).

import (
	"bufio"
	"fmt"
	"io"
	"os"
	"os/exec"
	"strconv"
	"strings"
	"time"
)

type SolverStats struct {
	Feasibility int
	Assertion   int
	Sat         int
	Unsat       int
	Unknown     int
	Time        time.Duration
}

type Solver struct {
	cmd     *exec.Cmd
	in      io.WriteCloser
	out     *bufio.Reader
	defined map[int]bool // term ids defined in this session
	ts      *TermStore
	Stats   SolverStats
	timeout int // ms per query
	log     io.Writer
	dead    bool
	script  strings.Builder // declarations, definitions and assertions of this session
}

var SolverPath = "z3"

func NewSolver(timeoutMs int) (*Solver, error) {
	var cmd *exec.Cmd
	if strings.Contains(SolverPath, "cvc5") {
		cmd = exec.Command(SolverPath, "--incremental", "--produce-models", "--lang=smt2", fmt.Sprintf("--tlimit-per=%d", timeoutMs))
	} else {
		cmd = exec.Command(SolverPath, "-in", fmt.Sprintf("-t:%d", timeoutMs))
	}
	in, err := cmd.StdinPipe()
	if err != nil {
		return nil, err
	}
	out, err := cmd.StdoutPipe()
	if err != nil {
		return nil, err
	}
	cmd.Stderr = os.Stderr
	if err := cmd.Start(); err != nil {
		return nil, err
	}
	s := &Solver{cmd: cmd, in: in, out: bufio.NewReaderSize(out, 1<<16), timeout: timeoutMs}
	if lf := os.Getenv("GOSMT_SMTLOG"); lf != "" {
		f, _ := os.OpenFile(lf, os.O_APPEND|os.O_CREATE|os.O_WRONLY, 0644)
		s.log = f
	}
	return s, nil
}

func (s *Solver) send(str string) {
	if s.log != nil {
		io.WriteString(s.log, str)
	}
	if _, err := io.WriteString(s.in, str); err != nil {
		s.dead = true
	}
}

func (s *Solver) Close() {
	if s.cmd != nil {
		s.in.Close()
		s.cmd.Process.Kill()
		s.cmd.Wait()
		s.cmd = nil
	}
}

// Reset starts a fresh context bound to term store ts.
func (s *Solver) Reset(ts *TermStore) {
	s.ts = ts
	s.defined = make(map[int]bool)
	s.script.Reset()
	s.send("(reset)\n(set-option :produce-models true)\n")
	if strings.Contains(SolverPath, "cvc5") {
		s.send("(set-logic QF_BV)\n")
	}
}

// define makes sure t (and its subterms) are declared/defined in the session.
func (s *Solver) define(t *Term) {
	if s.defined[t.id] {
		return
	}
	// iterative post-order to avoid deep recursion
	type fr struct {
		t *Term
		i int
	}
	stack := []fr{{t, 0}}
	var sb strings.Builder
	for len(stack) > 0 {
		top := &stack[len(stack)-1]
		if s.defined[top.t.id] {
			stack = stack[:len(stack)-1]
			continue
		}
		if top.i < len(top.t.args) {
			a := top.t.args[top.i]
			top.i++
			if !s.defined[a.id] {
				stack = append(stack, fr{a, 0})
			}
			continue
		}
		tt := top.t
		switch tt.op {
		case "const":
		case "var":
			fmt.Fprintf(&sb, "(declare-const %s %s)\n", tt.ref(), sortStr(tt.sort))
		default:
			fmt.Fprintf(&sb, "(define-fun %s () %s %s)\n", tt.ref(), sortStr(tt.sort), tt.body())
		}
		s.defined[tt.id] = true
		stack = stack[:len(stack)-1]
	}
	if sb.Len() > 0 {
		s.script.WriteString(sb.String())
		s.send(sb.String())
	}
}

// Assert adds t to the path condition.
func (s *Solver) Assert(t *Term) {
	if t.IsConst() && t.val == 1 {
		return
	}
	s.define(t)
	s.script.WriteString("(assert " + t.ref() + ")\n")
	s.send("(assert " + t.ref() + ")\n")
}

type Result int

const (
	Sat Result = iota
	Unsat
	Unknown
)

func (r Result) String() string { return [...]string{"sat", "unsat", "unknown"}[r] }

func (s *Solver) readLine() string {
	line, err := s.out.ReadString('\n')
	if err != nil {
		s.dead = true
		return "(error \"solver died\")"
	}
	return strings.TrimSpace(line)
}

// Check asks whether pc ∧ lits is satisfiable. kind: 0 feasibility, 1 assertion.
func (s *Solver) Check(kind int, lits ...*Term) Result {
	start := time.Now()
	var sb strings.Builder
	for _, l := range lits {
		s.define(l)
	}
	if len(lits) == 0 {
		sb.WriteString("(check-sat)\n")
	} else {
		sb.WriteString("(check-sat-assuming (")
		for _, l := range lits {
			sb.WriteString(l.ref())
			sb.WriteByte(' ')
		}
		sb.WriteString("))\n")
	}
	s.send(sb.String())
	res := Unknown
	for {
		line := s.readLine()
		if line == "" {
			continue
		}
		switch {
		case line == "sat":
			res = Sat
		case line == "unsat":
			res = Unsat
		case line == "unknown" || line == "timeout":
			res = Unknown
		case strings.HasPrefix(line, "(error"):
			fmt.Fprintln(os.Stderr, "solver error:", line)
			res = Unknown
			if s.dead {
				break
			}
			continue // the actual answer line follows
		default:
			fmt.Fprintln(os.Stderr, "solver: unexpected output:", line)
			continue
		}
		break
	}
	if kind == 0 {
		s.Stats.Feasibility++
	} else {
		s.Stats.Assertion++
	}
	switch res {
	case Sat:
		s.Stats.Sat++
	case Unsat:
		s.Stats.Unsat++
	default:
		s.Stats.Unknown++
	}
	s.Stats.Time += time.Since(start)
	return res
}

// Value returns the model value of t after a Sat answer.
func (s *Solver) Value(t *Term) (uint64, bool) {
	if t.IsConst() {
		return t.val, true
	}
	s.define(t)
	s.send("(get-value (" + t.ref() + "))\n")
	// answer like ((t12 #x0000000a)) possibly spanning lines
	txt := s.readSexp()
	return parseValue(txt)
}

func (s *Solver) readSexp() string {
	var sb strings.Builder
	depth := 0
	started := false
	for {
		line := s.readLine()
		if s.dead {
			return ""
		}
		sb.WriteString(line)
		sb.WriteByte(' ')
		for _, c := range line {
			if c == '(' {
				depth++
				started = true
			} else if c == ')' {
				depth--
			}
		}
		if started && depth <= 0 {
			break
		}
	}
	return sb.String()
}

func parseValue(txt string) (uint64, bool) {
	if strings.Contains(txt, "(error") {
		return 0, false
	}
	txt = strings.TrimSpace(txt)
	// strip trailing parens
	txt = strings.TrimRight(txt, ") ")
	i := strings.LastIndexAny(txt, " (")
	tok := txt[i+1:]
	// handle (_ bvN w)
	if j := strings.LastIndex(txt, "(_ bv"); j >= 0 {
		f := strings.Fields(txt[j+5:])
		if len(f) > 0 {
			v, err := strconv.ParseUint(f[0], 10, 64)
			return v, err == nil
		}
	}
	switch {
	case tok == "true":
		return 1, true
	case tok == "false":
		return 0, true
	case strings.HasPrefix(tok, "#x"):
		v, err := strconv.ParseUint(tok[2:], 16, 64)
		return v, err == nil
	case strings.HasPrefix(tok, "#b"):
		v, err := strconv.ParseUint(tok[2:], 2, 64)
		return v, err == nil
	}
	return 0, false
}

// Model returns values for all variables of the term store declared in this session.
func (s *Solver) Model() map[string]uint64 {
	m := make(map[string]uint64)
	var vars []*Term
	for _, v := range s.ts.vars {
		if s.defined[v.id] {
			vars = append(vars, v)
		} else {
			m[v.name] = 0
		}
	}
	for _, v := range vars {
		val, ok := s.Value(v)
		if ok {
			m[v.name] = val
		}
	}
	return m
}

// Script returns a standalone SMT-LIB2 script equivalent to the current
// session followed by a check of lits (used for cross-solver re-checks).
func (s *Solver) Script(lits ...*Term) string {
	for _, l := range lits {
		s.define(l)
	}
	var sb strings.Builder
	sb.WriteString("(set-logic QF_BV)\n")
	sb.WriteString(s.script.String())
	for _, l := range lits {
		sb.WriteString("(assert " + l.ref() + ")\n")
	}
	sb.WriteString("(check-sat)\n")
	return sb.String()
}
