// Package interp is a symbolic interpreter for the SSA form of Go programs,
// forked from golang.org/x/tools/go/ssa/interp v0.29.0 (BSD licence, The Go
// Authors). See value.go for the value representation.
package interp

import (
	"fmt"
	"go/token"
	"go/types"
	"os"
	"runtime"
	"slices"
	"strings"
	"sync"

	"golang.org/x/tools/go/ssa"
)

type continuation int

const (
	kNext continuation = iota
	kReturn
	kJump
)

type methodSet map[string]*ssa.Function

// Program is the state shared by all paths (read-only after Prepare).
type Program struct {
	Prog        *ssa.Program
	Sizes       types.Sizes
	InitGlobals map[*ssa.Global]*value // snapshot after package initialisation
	MutablePkgs map[*ssa.Package]bool  // globals of these packages are copied per path
	RepoPrefix  string                 // import path prefix of the code under test
	RepoDir     string
	runtimeErrorString types.Type
	errorType   types.Type
	Trace       bool
	Tier        string
	RetryAttempts int
	apiFuncs    map[*ssa.Function]externalFn
	typeMu      sync.Mutex
	typeCache   map[string]types.Type
	reMu        sync.Mutex
	sharedRe    map[*value]*reState
}

// State of one path execution.
type interpreter struct {
	P       *Program
	prog    *ssa.Program
	globals map[*ssa.Global]*value
	sizes   types.Sizes
	ps      *pathState
	ts      *TermStore
	sched   *sched
	instrs  int64
	mutexes map[*value]*mutexState
	wgs     map[*value]*wgState
	onces   map[*value]*onceState
	atomics map[*value]value
	funcSeen map[*ssa.Function]bool
	serial  int64 // for fresh ids (ksuid, clock)
	clock   int64
	hostState map[string]interface{}
	initMode bool
}

type deferred struct {
	fn    value
	args  []value
	instr *ssa.Defer
	tail  *deferred
}

type frame struct {
	i                *interpreter
	caller           *frame
	fn               *ssa.Function
	block, prevBlock *ssa.BasicBlock
	env              map[ssa.Value]value
	locals           []value
	defers           *deferred
	result           value
	panicking        bool
	panic            interface{}
	phitemps         []value
}

// If the target program panics, the interpreter panics with this type.
type targetPanic struct {
	v value
}

func (p targetPanic) String() string { return toString(p.v) }

type exitPanic int

func (fr *frame) get(key ssa.Value) value {
	switch key := key.(type) {
	case nil:
		return nil
	case *ssa.Function, *ssa.Builtin:
		return key
	case *ssa.Const:
		return constValue(key)
	case *ssa.Global:
		if r, ok := fr.i.globals[key]; ok {
			return r
		}
		return fr.i.lazyGlobal(key)
	}
	if r, ok := fr.env[key]; ok {
		return r
	}
	panic(fmt.Sprintf("get: no value for %T: %v", key, key.Name()))
}

// lazyGlobal allocates storage for a global of a package without source
// (external). Reading it yields the zero value; this is reported as a stub.
func (i *interpreter) lazyGlobal(g *ssa.Global) *value {
	cell := zero(mustDeref(g.Type()))
	p := &cell
	i.globals[g] = p
	if i.ps != nil {
		i.ps.res.Stubs["global:"+g.String()] = true
	}
	return p
}

func mustDeref(t types.Type) types.Type {
	if p, ok := t.Underlying().(*types.Pointer); ok {
		return p.Elem()
	}
	panic(fmt.Sprintf("mustDeref: not a pointer: %v", t))
}

func (fr *frame) runDefer(d *deferred) {
	var ok bool
	defer func() {
		if !ok {
			r := recover()
			if isEnginePanic(r) {
				panic(r)
			}
			fr.panicking = true
			fr.panic = r
		}
	}()
	call(fr.i, fr, d.instr.Pos(), d.fn, d.args)
	ok = true
}

func isEnginePanic(r interface{}) bool {
	switch r.(type) {
	case pathEnd, abortTask:
		return true
	}
	return false
}

func (fr *frame) runDefers() {
	for d := fr.defers; d != nil; d = d.tail {
		fr.runDefer(d)
	}
	fr.defers = nil
	if fr.panicking {
		panic(fr.panic)
	}
}

func lookupMethod(i *interpreter, typ types.Type, meth *types.Func) *ssa.Function {
	return i.prog.LookupMethod(typ, meth.Pkg(), meth.Name())
}

func (i *interpreter) rtPanic(msg string) {
	panic(targetPanic{v: iface{t: i.P.runtimeErrorString, v: "runtime error: " + msg}})
}

// asIntC returns the concrete int64 value of an integer value, concretising
// symbolic values.
func (i *interpreter) asIntC(x value) int64 {
	if s, ok := x.(sym); ok {
		v := i.ps.concretize(s.t)
		if kindSigned(s.k) {
			return sext(v, s.t.sort)
		}
		return int64(v)
	}
	return asInt64(x)
}

// truth returns the concrete truth of a (possibly symbolic) bool, forking.
func (i *interpreter) truth(x value) bool {
	switch x := x.(type) {
	case bool:
		return x
	case sym:
		return i.ps.decide(x.t)
	}
	panic(fmt.Sprintf("truth: unexpected %T", x))
}

func visitInstr(fr *frame, instr ssa.Instruction) continuation {
	i := fr.i
	switch instr := instr.(type) {
	case *ssa.DebugRef:
		// no-op

	case *ssa.UnOp:
		fr.env[instr] = unop(i, instr, fr.get(instr.X))

	case *ssa.BinOp:
		fr.env[instr] = binop(i, instr.Op, instr.X.Type(), fr.get(instr.X), fr.get(instr.Y))

	case *ssa.Call:
		fn, args := prepareCall(fr, &instr.Call)
		fr.env[instr] = call(i, fr, instr.Pos(), fn, args)

	case *ssa.ChangeInterface:
		fr.env[instr] = fr.get(instr.X)

	case *ssa.ChangeType:
		fr.env[instr] = fr.get(instr.X)

	case *ssa.Convert:
		fr.env[instr] = conv(i, instr.Type(), instr.X.Type(), fr.get(instr.X))

	case *ssa.SliceToArrayPointer:
		fr.env[instr] = sliceToArrayPointer(i, instr.Type(), instr.X.Type(), fr.get(instr.X))

	case *ssa.MakeInterface:
		fr.env[instr] = iface{t: instr.X.Type(), v: fr.get(instr.X)}

	case *ssa.Extract:
		fr.env[instr] = fr.get(instr.Tuple).(tuple)[instr.Index]

	case *ssa.Slice:
		fr.env[instr] = slice(i, fr.get(instr.X), fr.get(instr.Low), fr.get(instr.High), fr.get(instr.Max))

	case *ssa.Return:
		switch len(instr.Results) {
		case 0:
		case 1:
			fr.result = fr.get(instr.Results[0])
		default:
			var res []value
			for _, r := range instr.Results {
				res = append(res, fr.get(r))
			}
			fr.result = tuple(res)
		}
		fr.block = nil
		return kReturn

	case *ssa.RunDefers:
		fr.runDefers()

	case *ssa.Panic:
		panic(targetPanic{fr.get(instr.X)})

	case *ssa.Send:
		c, _ := fr.get(instr.Chan).(*vchan)
		i.chanSend(c, copyVal(instr.X.Type(), fr.get(instr.X)))

	case *ssa.Store:
		addr := fr.get(instr.Addr).(*value)
		if addr == nil {
			i.rtPanic("invalid memory address or nil pointer dereference")
		}
		store(mustDeref(instr.Addr.Type()), addr, fr.get(instr.Val))

	case *ssa.If:
		succ := 1
		if i.truth(fr.get(instr.Cond)) {
			succ = 0
		}
		fr.prevBlock, fr.block = fr.block, fr.block.Succs[succ]
		return kJump

	case *ssa.Jump:
		fr.prevBlock, fr.block = fr.block, fr.block.Succs[0]
		return kJump

	case *ssa.Defer:
		fn, args := prepareCall(fr, &instr.Call)
		defers := &fr.defers
		if into := fr.get(instr.DeferStack); into != nil {
			defers = into.(**deferred)
		}
		*defers = &deferred{fn: fn, args: args, instr: instr, tail: *defers}

	case *ssa.Go:
		fn, args := prepareCall(fr, &instr.Call)
		pos := instr.Pos()
		i.sched.spawn(i, fmt.Sprint(instr.Call.Value), func() {
			call(i, nil, pos, fn, args)
		})

	case *ssa.MakeChan:
		fr.env[instr] = &vchan{capacity: int(i.asIntC(fr.get(instr.Size)))}

	case *ssa.Alloc:
		var addr *value
		if instr.Heap {
			addr = new(value)
			fr.env[instr] = addr
		} else {
			addr = fr.env[instr].(*value)
		}
		*addr = zero(mustDeref(instr.Type()))

	case *ssa.MakeSlice:
		c := i.asIntC(fr.get(instr.Cap))
		l := i.asIntC(fr.get(instr.Len))
		if l < 0 || c < l {
			i.rtPanic("makeslice: len out of range")
		}
		if c > 1<<26 {
			i.ps.unsupported("make([]T, %d): too large for the cell representation", c)
		}
		sl := make([]value, c)
		tElt := instr.Type().Underlying().(*types.Slice).Elem()
		if isScalarType(tElt) {
			z := zero(tElt)
			for k := range sl {
				sl[k] = z
			}
		} else {
			for k := range sl {
				sl[k] = zero(tElt)
			}
		}
		fr.env[instr] = sl[:l]

	case *ssa.MakeMap:
		fr.env[instr] = newOmap(instr.Type().Underlying().(*types.Map).Key())

	case *ssa.Range:
		fr.env[instr] = rangeIter(i, fr.get(instr.X), instr.X.Type())

	case *ssa.Next:
		fr.env[instr] = fr.get(instr.Iter).(iter).next(i)

	case *ssa.FieldAddr:
		p := fr.get(instr.X).(*value)
		if p == nil {
			i.rtPanic("invalid memory address or nil pointer dereference")
		}
		fr.env[instr] = &(*p).(structure)[instr.Field]

	case *ssa.Field:
		fr.env[instr] = fr.get(instr.X).(structure)[instr.Field]

	case *ssa.IndexAddr:
		x := fr.get(instr.X)
		if sr, ok := symRefFor(i, instr, x, fr.get(instr.Index)); ok {
			fr.env[instr] = sr
			return kNext
		}
		idx := i.asIntC(fr.get(instr.Index))
		switch x := x.(type) {
		case []value:
			if idx < 0 || idx >= int64(len(x)) {
				i.rtPanic(fmt.Sprintf("index out of range [%d] with length %d", idx, len(x)))
			}
			fr.env[instr] = &x[idx]
		case *value: // *array
			if x == nil {
				i.rtPanic("invalid memory address or nil pointer dereference")
			}
			a := (*x).(array)
			if idx < 0 || idx >= int64(len(a)) {
				i.rtPanic(fmt.Sprintf("index out of range [%d] with length %d", idx, len(a)))
			}
			fr.env[instr] = &a[idx]
		default:
			panic(fmt.Sprintf("unexpected x type in IndexAddr: %T", x))
		}

	case *ssa.Index:
		x := fr.get(instr.X)
		idxv := fr.get(instr.Index)
		fr.env[instr] = indexValue(i, x, idxv)

	case *ssa.Lookup:
		fr.env[instr] = lookup(i, instr, fr.get(instr.X), fr.get(instr.Index))

	case *ssa.MapUpdate:
		m := fr.get(instr.Map).(*omap)
		if m == nil {
			panic(targetPanic{v: iface{t: i.P.runtimeErrorString, v: "assignment to entry in nil map"}})
		}
		mt := instr.Map.Type().Underlying().(*types.Map)
		m.insert(i, copyVal(mt.Key(), fr.get(instr.Key)), copyVal(mt.Elem(), fr.get(instr.Value)))

	case *ssa.TypeAssert:
		fr.env[instr] = typeAssert(i, instr, fr.get(instr.X).(iface))

	case *ssa.MakeClosure:
		var bindings []value
		for _, binding := range instr.Bindings {
			bindings = append(bindings, fr.get(binding))
		}
		fr.env[instr] = &closure{instr.Fn.(*ssa.Function), bindings}

	case *ssa.Phi:
		panic("unreachable: phi")

	case *ssa.Select:
		fr.env[instr] = doSelect(fr, instr)

	default:
		panic(fmt.Sprintf("unexpected instruction: %T", instr))
	}
	return kNext
}

// symref is the address of cells[idx] for a symbolic idx; it is only created
// when every use of the address is a load of a scalar (table lookups such as
// unicode.properties[uint8(r)]), and is read as an ite chain.
type symref struct {
	cells []value
	idx   sym
}

func symRefFor(i *interpreter, instr *ssa.IndexAddr, x value, idxv value) (symref, bool) {
	s, ok := idxv.(sym)
	if !ok {
		return symref{}, false
	}
	refs := instr.Referrers()
	if refs == nil || len(*refs) == 0 {
		return symref{}, false
	}
	for _, r := range *refs {
		u, ok := r.(*ssa.UnOp)
		if !ok || u.Op != token.MUL {
			return symref{}, false
		}
	}
	var cells []value
	switch x := x.(type) {
	case []value:
		cells = x
	case *value:
		if x == nil {
			return symref{}, false
		}
		cells = (*x).(array)
	default:
		return symref{}, false
	}
	if len(cells) == 0 || len(cells) > 256 {
		return symref{}, false
	}
	for _, c := range cells {
		switch c.(type) {
		case sym, bool, int, int8, int16, int32, int64, uint, uint8, uint16, uint32, uint64, uintptr:
		default:
			return symref{}, false
		}
	}
	return symref{cells, s}, true
}

// symIndex reads cells[idx] for a symbolic idx as an ite chain (no forking
// except for the bounds check) when all cells are integer scalars.
func symIndex(i *interpreter, cells func(k int) value, n int, idx sym) (value, bool) {
	if n == 0 || n > 4096 {
		return nil, false
	}
	if n > 256 {
		// large tables only when constant (they compress into runs)
		for k := 0; k < n; k++ {
			if _, isSym := cells(k).(sym); isSym {
				return nil, false
			}
		}
	}
	first := cells(0)
	_, k0 := i.termOf(first)
	for k := 0; k < n; k++ {
		c := cells(k)
		switch c.(type) {
		case sym, bool, int, int8, int16, int32, int64, uint, uint8, uint16, uint32, uint64, uintptr:
		default:
			return nil, false
		}
	}
	ts := i.ts
	w := idx.t.sort
	inb := ts.Bool(true)
	if w >= 64 || uint64(n) < (uint64(1)<<uint(w)) {
		inb = ts.Cmp("bvult", idx.t, ts.Const(w, uint64(n)))
	}
	if !i.ps.decide(inb) {
		i.rtPanic(fmt.Sprintf("index out of range [symbolic] with length %d", n))
	}
	// runs of equal cells become one range test (idx <= end of run): constant
	// tables such as unicode.properties shrink from 256 to a few dozen cases
	r, _ := i.termOf(cells(n - 1))
	prev := r
	for k := n - 2; k >= 0; k-- {
		c, _ := i.termOf(cells(k))
		if c == prev {
			continue
		}
		r = ts.Ite(ts.Cmp("bvule", idx.t, ts.Const(w, uint64(k))), c, r)
		prev = c
	}
	return valOf(r, k0), true
}

func indexValue(i *interpreter, x value, idxv value) value {
	if s, ok := idxv.(sym); ok {
		switch x := x.(type) {
		case array:
			if v, ok := symIndex(i, func(k int) value { return x[k] }, len(x), s); ok {
				return v
			}
		case string:
			if v, ok := symIndex(i, func(k int) value { return x[k] }, len(x), s); ok {
				return v
			}
		case symstr:
			if v, ok := symIndex(i, func(k int) value { return x.b[k] }, len(x.b), s); ok {
				return v
			}
		}
	}
	switch x := x.(type) {
	case array:
		idx := i.asIntC(idxv)
		if idx < 0 || idx >= int64(len(x)) {
			i.rtPanic(fmt.Sprintf("index out of range [%d] with length %d", idx, len(x)))
		}
		return x[idx]
	case string:
		idx := i.asIntC(idxv)
		if idx < 0 || idx >= int64(len(x)) {
			i.rtPanic(fmt.Sprintf("index out of range [%d] with length %d", idx, len(x)))
		}
		return x[idx]
	case symstr:
		idx := i.asIntC(idxv)
		if idx < 0 || idx >= int64(len(x.b)) {
			i.rtPanic(fmt.Sprintf("index out of range [%d] with length %d", idx, len(x.b)))
		}
		return x.b[idx]
	}
	panic(fmt.Sprintf("unexpected x type in Index: %T", x))
}

func doSelect(fr *frame, instr *ssa.Select) value {
	i := fr.i
	n := len(instr.States)
	chans := make([]*vchan, n)
	sends := make([]value, n)
	for k, st := range instr.States {
		chans[k], _ = fr.get(st.Chan).(*vchan)
		if st.Dir == types.SendOnly {
			sends[k] = copyVal(st.Send.Type(), fr.get(st.Send))
		}
	}
	readyIdx := func() int {
		for k, st := range instr.States {
			c := chans[k]
			if c == nil {
				continue
			}
			if st.Dir == types.RecvOnly {
				if c.recvReady() {
					return k
				}
			} else if c.sendReady() {
				return k
			}
		}
		return -1
	}
	chosen := readyIdx()
	if chosen < 0 && instr.Blocking {
		for k, st := range instr.States {
			if st.Dir == types.RecvOnly && chans[k] != nil {
				chans[k].recvWaiters++
			}
		}
		i.sched.block(i, func() bool { return readyIdx() >= 0 }, "select")
		for k, st := range instr.States {
			if st.Dir == types.RecvOnly && chans[k] != nil {
				chans[k].recvWaiters--
			}
		}
		chosen = readyIdx()
	}
	var recv value
	recvOk := false
	if chosen >= 0 {
		st := instr.States[chosen]
		c := chans[chosen]
		if st.Dir == types.RecvOnly {
			recv, recvOk = c.take()
		} else {
			i.chanSend(c, sends[chosen])
		}
	}
	r := tuple{chosen, recvOk}
	for k, st := range instr.States {
		if st.Dir == types.RecvOnly {
			var v value
			if k == chosen && recvOk {
				v = recv
			} else {
				v = zero(st.Chan.Type().Underlying().(*types.Chan).Elem())
			}
			r = append(r, v)
		}
	}
	return r
}

func prepareCall(fr *frame, call *ssa.CallCommon) (fn value, args []value) {
	v := fr.get(call.Value)
	if call.Method == nil {
		fn = v
	} else {
		recv := v.(iface)
		if recv.t == nil {
			fr.i.rtPanic("invalid memory address or nil pointer dereference (method call on nil interface)")
		}
		if rb, ok := recv.v.(rtypeBox); ok {
			// a modelled reflect.Type
			fn = reflectTypeMethod(fr.i, call.Method.Name())
			args = append(args, rb)
			for _, arg := range call.Args {
				args = append(args, fr.get(arg))
			}
			return
		}
		f := lookupMethod(fr.i, recv.t, call.Method)
		if f == nil {
			panic(fmt.Sprintf("method set for dynamic type %v does not contain %s", recv.t, call.Method))
		}
		fn = f
		args = append(args, recv.v)
	}
	for _, arg := range call.Args {
		args = append(args, fr.get(arg))
	}
	return
}

func call(i *interpreter, caller *frame, callpos token.Pos, fn value, args []value) value {
	switch fn := fn.(type) {
	case *ssa.Function:
		if fn == nil {
			i.rtPanic("invalid memory address or nil pointer dereference (call of nil func)")
		}
		return callSSA(i, caller, callpos, fn, args, nil)
	case *closure:
		if fn == nil {
			i.rtPanic("invalid memory address or nil pointer dereference (call of nil func)")
		}
		return callSSA(i, caller, callpos, fn.Fn, args, fn.Env)
	case *ssa.Builtin:
		return callBuiltin(i, caller, callpos, fn, args)
	case hostFn:
		return fn(&frame{i: i, caller: caller}, args)
	}
	panic(fmt.Sprintf("cannot call %T", fn))
}

func (i *interpreter) noteFunc(fn *ssa.Function) {
	if i.funcSeen[fn] {
		return
	}
	i.funcSeen[fn] = true
	if i.ps == nil {
		return
	}
	name := fn.String()
	if pkg := fn.Package(); pkg != nil && strings.HasPrefix(pkg.Pkg.Path(), i.P.RepoPrefix) {
		i.ps.res.Funcs[name] = true
	} else if fn.Blocks != nil {
		i.ps.res.Funcs["dep:"+name] = true
	}
}

func callSSA(i *interpreter, caller *frame, callpos token.Pos, fn *ssa.Function, args []value, env []value) value {
	fr := &frame{i: i, caller: caller, fn: fn}
	if api := i.P.apiFuncs[fn]; api != nil {
		return api(fr, args)
	}
	if fn.Parent() == nil {
		name := fn.String()
		if ext := externals[name]; ext != nil {
			if i.ps != nil && !i.funcSeen[fn] {
				i.funcSeen[fn] = true
				i.ps.res.Stubs[name] = true
			}
			return ext(fr, args)
		}
		if fn.Blocks == nil {
			if origin := fn.Origin(); origin != nil {
				if ext := externals[origin.String()]; ext != nil {
					return ext(fr, args)
				}
			}
			return callExternalFallback(fr, fn, name, args)
		}
	}
	if fn.Blocks == nil {
		return callExternalFallback(fr, fn, fn.String(), args)
	}
	if fn.TypeParams().Len() > 0 && len(fn.TypeArgs()) == 0 {
		panic("interp requires InstantiateGenerics")
	}
	i.noteFunc(fn)
	if i.P.Trace {
		fmt.Fprintf(os.Stderr, "%*sEntering %s\n", depthOf(caller), "", fn)
	}
	fr.env = make(map[ssa.Value]value)
	fr.block = fn.Blocks[0]
	fr.locals = make([]value, len(fn.Locals))
	for k, l := range fn.Locals {
		fr.locals[k] = zero(mustDeref(l.Type()))
		fr.env[l] = &fr.locals[k]
	}
	for k, p := range fn.Params {
		fr.env[p] = args[k]
	}
	for k, fv := range fn.FreeVars {
		fr.env[fv] = env[k]
	}
	for fr.block != nil {
		runFrame(fr)
	}
	return fr.result
}

func depthOf(fr *frame) int {
	n := 0
	for ; fr != nil; fr = fr.caller {
		n++
	}
	return n
}

func runFrame(fr *frame) {
	defer func() {
		if fr.block == nil {
			return // normal return
		}
		r := recover()
		if isEnginePanic(r) {
			panic(r)
		}
		if re, ok := r.(runtime.Error); ok {
			msg := re.Error()
			if strings.Contains(msg, "interface conversion") || strings.Contains(msg, "comparing uncomparable") {
				// engine gap, not a target panic
				panic(pathEnd{"unsupported", fmt.Sprintf("engine: %s in %s", msg, fr.fn)})
			}
		}
		if s, ok := r.(string); ok {
			// explicit panic(string) inside the interpreter = engine gap
			panic(pathEnd{"unsupported", fmt.Sprintf("engine: %s in %s", s, fr.fn)})
		}
		fr.panicking = true
		fr.panic = r
		fr.runDefers()
		fr.block = fr.fn.Recover
	}()

	i := fr.i
	for {
		nonPhis := executePhis(fr)
		for _, instr := range nonPhis {
			i.instrs++
			if i.ps != nil && i.instrs > i.ps.budget {
				panic(pathEnd{"budget", fmt.Sprintf("more than %d instructions executed on one path (in %s)", i.ps.budget, fr.fn)})
			}
			if i.P.Trace {
				if v, ok := instr.(ssa.Value); ok {
					fmt.Fprintf(os.Stderr, "%*s %s = %s\n", depthOf(fr.caller), "", v.Name(), instr)
				} else {
					fmt.Fprintf(os.Stderr, "%*s %s\n", depthOf(fr.caller), "", instr)
				}
			}
			if visitInstr(fr, instr) == kReturn {
				return
			}
		}
	}
}

func executePhis(fr *frame) []ssa.Instruction {
	firstNonPhi := -1
	for i, instr := range fr.block.Instrs {
		if _, ok := instr.(*ssa.Phi); !ok {
			firstNonPhi = i
			break
		}
	}
	nonPhis := fr.block.Instrs[firstNonPhi:]
	if firstNonPhi > 0 {
		phis := fr.block.Instrs[:firstNonPhi]
		predIndex := slices.Index(fr.block.Preds, fr.prevBlock)
		fr.phitemps = fr.phitemps[:0]
		for _, phi := range phis {
			phi := phi.(*ssa.Phi)
			fr.phitemps = append(fr.phitemps, fr.get(phi.Edges[predIndex]))
		}
		for i, phi := range phis {
			fr.env[phi.(*ssa.Phi)] = fr.phitemps[i]
		}
	}
	return nonPhis
}

func doRecover(caller *frame) value {
	if caller != nil && !caller.panicking &&
		caller.caller != nil && caller.caller.panicking {
		caller.caller.panicking = false
		p := caller.caller.panic
		caller.caller.panic = nil
		switch p := p.(type) {
		case targetPanic:
			return p.v
		case runtime.Error:
			return iface{caller.i.P.runtimeErrorString, p.Error()}
		case string:
			return iface{caller.i.P.runtimeErrorString, p}
		default:
			panic(fmt.Sprintf("unexpected panic type %T in target call to recover()", p))
		}
	}
	return iface{}
}
