package interp

// Entry points: program preparation (package initialisation snapshot) and
// execution of one path of a harness.

import (
	"fmt"
	"go/token"
	"go/types"
	"path/filepath"
	"runtime"
	"strings"

	"golang.org/x/tools/go/ssa"
)

type PathOpts struct {
	Budget      int64
	Unwind      int
	KeepScripts bool
	WantModel   bool // compute a model of the final path condition (validation sampling)
	Known       map[string]bool
}

// NewProgram prepares shared state. srcPkgs are the packages with function
// bodies; initRoots are the packages whose init must run (harness packages).
func NewProgram(prog *ssa.Program, repoPrefix, repoDir string, sizes types.Sizes) *Program {
	P := &Program{Prog: prog, Sizes: sizes, RepoPrefix: repoPrefix, RepoDir: repoDir,
		InitGlobals: make(map[*ssa.Global]*value), MutablePkgs: make(map[*ssa.Package]bool)}
	if rt := prog.ImportedPackage("runtime"); rt != nil {
		if t := rt.Type("errorString"); t != nil {
			P.runtimeErrorString = t.Object().Type()
		}
	}
	if P.runtimeErrorString == nil {
		// synthesise a named string type with an Error method is not possible; fall back to string
		P.runtimeErrorString = types.Typ[types.String]
	}
	P.apiFuncs = make(map[*ssa.Function]externalFn)
	for _, pkg := range prog.AllPackages() {
		if strings.HasPrefix(pkg.Pkg.Path(), repoPrefix) {
			P.MutablePkgs[pkg] = true
			for _, m := range pkg.Members {
				if f, ok := m.(*ssa.Function); ok {
					if api := harnessAPI[f.Name()]; api != nil && isHarnessAPIFile(prog.Fset, f) {
						P.apiFuncs[f] = api
					}
				}
			}
		}
	}
	return P
}

// AddStub routes calls of the package-level function target (a datamon function that opens an
// environment the engine cannot execute, e.g. an on-disk KV store) to the harness function repl of
// the same package, in symbolic runs only: the native replay runs the real function.
func (P *Program) AddStub(pkgPath, target, repl string) error {
	for _, pkg := range P.Prog.AllPackages() {
		if pkg.Pkg.Path() != pkgPath {
			continue
		}
		tf, rf := pkg.Func(target), pkg.Func(repl)
		if tf == nil || rf == nil {
			return fmt.Errorf("stub %s -> %s: function not found in %s", target, repl, pkgPath)
		}
		if !types.Identical(tf.Signature, rf.Signature) {
			return fmt.Errorf("stub %s -> %s: signatures differ", target, repl)
		}
		name := pkgPath + "." + target
		P.apiFuncs[tf] = func(fr *frame, args []value) value {
			if fr.i.ps != nil {
				fr.i.ps.res.Stubs["stubbed: "+name+" -> "+repl] = true
			}
			return call(fr.i, fr.caller, 0, rf, args)
		}
		return nil
	}
	return fmt.Errorf("stub: package %s not loaded", pkgPath)
}

func (P *Program) allocGlobals(pkg *ssa.Package, into map[*ssa.Global]*value) {
	for _, m := range pkg.Members {
		if g, ok := m.(*ssa.Global); ok {
			cell := zero(mustDeref(g.Type()))
			into[g] = &cell
		}
	}
}

func (P *Program) newInterp() *interpreter {
	i := &interpreter{
		P: P, prog: P.Prog, sizes: P.Sizes,
		globals:  make(map[*ssa.Global]*value, len(P.InitGlobals)+64),
		mutexes:  make(map[*value]*mutexState),
		wgs:      make(map[*value]*wgState),
		onces:    make(map[*value]*onceState),
		atomics:  make(map[*value]value),
		funcSeen: make(map[*ssa.Function]bool),
		hostState: make(map[string]interface{}),
		clock:    1600000000,
	}
	return i
}

// InitShared runs the initialisers of the given root packages once, keeping
// the resulting globals of non-repo packages as the shared snapshot.
func (P *Program) InitShared(roots []*ssa.Package) error {
	i := P.newInterp()
	i.ts = NewTermStore()
	for _, pkg := range P.Prog.AllPackages() {
		if pkg.Func("init") != nil && pkg.Func("init").Blocks != nil {
			P.allocGlobals(pkg, i.globals)
		}
	}
	res := &PathResult{Funcs: map[string]bool{}, Stubs: map[string]bool{}, Bounds: map[string][2]int64{}}
	i.ps = &pathState{i: i, ts: i.ts, res: res, varSeq: map[string]int{}, budget: 1 << 40}
	var err error
	i.runTasks(func() {
		for _, r := range roots {
			if f := r.Func("init"); f != nil {
				call(i, nil, token.NoPos, f, nil)
			}
		}
	})
	if e := i.sched.endVal; e != nil {
		if pe, ok := e.(pathEnd); !ok || pe.outcome != "ok" {
			err = fmt.Errorf("package initialisation failed: %v", describeEnd(e))
		}
	}
	for g, c := range i.globals {
		if g.Pkg != nil && P.MutablePkgs[g.Pkg] {
			continue
		}
		P.InitGlobals[g] = c
	}
	return err
}

func describeEnd(e interface{}) string {
	switch e := e.(type) {
	case pathEnd:
		return e.outcome + ": " + e.detail
	case targetPanic:
		return "panic: " + toString(e.v)
	case runtime.Error:
		return "host runtime error: " + e.Error()
	}
	return fmt.Sprint(e)
}

// runTasks runs f as task 0 under a fresh scheduler and waits for the path to end.
func (i *interpreter) runTasks(f func()) {
	s := newSched()
	i.sched = s
	s.spawn(i, "main", func() {
		f()
		s.finish(pathEnd{"ok", ""})
	})
	t0 := s.tasks[0]
	s.cur = t0
	t0.wake <- struct{}{}
	<-s.mainEnd
}

// RunPath executes one path of harness fn following prefix.
func (P *Program) RunPath(fn *ssa.Function, roots []*ssa.Package, prefix []Decision, solver *Solver, opts PathOpts) *PathResult {
	i := P.newInterp()
	i.ts = NewTermStore()
	solver.Reset(i.ts)
	before := solver.Stats
	for g, c := range P.InitGlobals {
		i.globals[g] = c
	}
	for pkg := range P.MutablePkgs {
		P.allocGlobals(pkg, i.globals)
	}
	res := &PathResult{Funcs: map[string]bool{}, Stubs: map[string]bool{}, Bounds: map[string][2]int64{}}
	ps := &pathState{i: i, ts: i.ts, solver: solver, prefix: prefix, res: res,
		varSeq: map[string]int{}, harness: fn.Name(), budget: opts.Budget, unwind: opts.Unwind,
		keepScripts: opts.KeepScripts, known: opts.Known}
	i.ps = ps
	i.runTasks(func() {
		for _, r := range roots {
			if f := r.Func("init"); f != nil {
				call(i, nil, token.NoPos, f, nil)
			}
		}
		call(i, nil, token.NoPos, fn, nil)
	})
	end := i.sched.endVal
	res.Instrs = i.instrs
	res.Order = ps.order
	switch e := end.(type) {
	case pathEnd:
		res.Outcome, res.Detail = e.outcome, e.detail
	case targetPanic:
		res.Outcome, res.Detail = "panic", toString(e.v)
		if ifc, ok := e.v.(iface); ok {
			res.Detail = panicMessage(i, ifc)
		}
	case runtime.Error:
		res.Outcome, res.Detail = "panic", "host: "+e.Error()
	default:
		res.Outcome, res.Detail = "panic", fmt.Sprint(e)
	}
	if ps.pos < len(prefix) && res.Outcome != "nondet-mismatch" {
		// the run ended before consuming its prefix: acceptable only if it ended early
		// for a reason that is itself deterministic (violation / panic).
		if res.Outcome == "ok" {
			res.Outcome, res.Detail = "nondet-mismatch", "path ended before consuming its decision prefix"
		}
	}
	switch res.Outcome {
	case "panic", "deadlock", "fatal":
		// crash of the program under test: a violation of the implicit no-crash clause
		ps.crash(res.Outcome, res.Outcome, res.Detail)
	case "budget":
		res.TermClaim = ps.termClaim
		if ps.termClaim {
			ps.crash("nontermination", "terminates", res.Detail)
		}
	case "ok":
		if opts.WantModel {
			if solver.Check(0) == Sat {
				res.Model = ps.model()
				memo := map[*Term]uint64{}
				for _, o := range ps.observes {
					res.Observed = append(res.Observed, ObservedVal{o.Name, renderObserved(i, o.Val, res.Model, memo)})
				}
			}
		}
	}
	if ps.unknownSeen && res.Outcome == "ok" {
		res.Detail = "feasibility unknown on some branch (both sides kept)"
	}
	after := solver.Stats
	res.Stats = SolverStats{
		Feasibility: after.Feasibility - before.Feasibility,
		Assertion:   after.Assertion - before.Assertion,
		Sat:         after.Sat - before.Sat,
		Unsat:       after.Unsat - before.Unsat,
		Unknown:     after.Unknown - before.Unknown,
		Time:        after.Time - before.Time,
	}
	return res
}

func panicMessage(i *interpreter, v iface) string {
	if v.t == nil {
		return "panic(nil)"
	}
	switch x := v.v.(type) {
	case string:
		return x
	}
	return fmt.Sprintf("%s: %s", v.t, toString(v.v))
}

// renderObserved prints an observed value under a model in the same format
// as the native harness prints it (%v of ints, bools, strings, byte slices as hex).
func renderObserved(i *interpreter, v value, m map[string]uint64, memo map[*Term]uint64) string {
	switch x := v.(type) {
	case iface:
		return renderObserved(i, x.v, m, memo)
	case sym:
		u := x.t.Eval(i.ts, m, memo)
		if x.k == types.Bool {
			return fmt.Sprint(u != 0)
		}
		if kindSigned(x.k) {
			return fmt.Sprint(sext(u, x.t.sort))
		}
		return fmt.Sprint(u)
	case symstr:
		bs := make([]byte, len(x.b))
		for k, c := range x.b {
			bs[k] = byte(cellVal(i, c, m, memo))
		}
		return fmt.Sprintf("%q", string(bs))
	case string:
		return fmt.Sprintf("%q", x)
	case []value:
		// byte slices as hex, other slices elementwise
		isBytes := true
		for _, c := range x {
			switch cc := c.(type) {
			case uint8:
			case sym:
				if cc.k != types.Uint8 {
					isBytes = false
				}
			default:
				isBytes = false
			}
		}
		if isBytes {
			bs := make([]byte, len(x))
			for k, c := range x {
				bs[k] = byte(cellVal(i, c, m, memo))
			}
			return fmt.Sprintf("%x", bs)
		}
		var parts []string
		for _, c := range x {
			parts = append(parts, renderObserved(i, c, m, memo))
		}
		return "[" + strings.Join(parts, " ") + "]"
	case bool, int, int8, int16, int32, int64, uint, uint8, uint16, uint32, uint64, uintptr:
		return fmt.Sprint(x)
	}
	return toString(v)
}

func cellVal(i *interpreter, c value, m map[string]uint64, memo map[*Term]uint64) uint64 {
	switch cc := c.(type) {
	case sym:
		return cc.t.Eval(i.ts, m, memo)
	}
	u, _, _ := intOf(c)
	return u
}

// IsHarnessAPIFile reports whether fn is defined in an injected API file.
func isHarnessAPIFile(fset *token.FileSet, fn *ssa.Function) bool {
	if fn.Pos() == token.NoPos {
		return false
	}
	return strings.HasPrefix(filepath.Base(fset.Position(fn.Pos()).Filename), "zz_verif_api")
}
