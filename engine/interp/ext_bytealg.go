package interp

// internal/bytealg (assembly on amd64) over possibly symbolic bytes.

import (
	"go/types"
)

func cellsOf(v value) []value {
	switch x := v.(type) {
	case []value:
		return x
	case string, symstr:
		return strCells(x)
	case nil:
		return nil
	}
	panic("cellsOf: unexpected operand")
}

func cellEq(i *interpreter, a, b value) *Term {
	if av, ok := a.(uint8); ok {
		if bv, ok := b.(uint8); ok {
			return i.ts.Bool(av == bv)
		}
	}
	ta, _ := i.termOf(a)
	tb, _ := i.termOf(b)
	return i.ts.Cmp("=", ta, tb)
}

func indexByte(i *interpreter, cells []value, c value) int {
	for k, b := range cells {
		if i.ps.decide(cellEq(i, b, c)) {
			return k
		}
	}
	return -1
}

func cellsEqTerm(i *interpreter, a, b []value) *Term {
	if len(a) != len(b) {
		return i.ts.Bool(false)
	}
	r := i.ts.Bool(true)
	for k := range a {
		r = i.ts.And(r, cellEq(i, a[k], b[k]))
		if r.IsConst() && r.val == 0 {
			return r
		}
	}
	return r
}

func indexCells(i *interpreter, hay, needle []value) int {
	n := len(needle)
	if n == 0 {
		return 0
	}
	for k := 0; k+n <= len(hay); k++ {
		if i.ps.decide(cellsEqTerm(i, hay[k:k+n], needle)) {
			return k
		}
	}
	return -1
}

func compareCells(i *interpreter, a, b []value) int {
	if i.ps.decide(strLessTerm(i, symstr{a}, symstr{b}, false)) {
		return -1
	}
	if i.ps.decide(cellsEqTerm(i, a, b)) {
		return 0
	}
	return 1
}

func init() {
	const p = "internal/bytealg."
	externals[p+"IndexByte"] = func(fr *frame, args []value) value {
		return indexByte(fr.i, cellsOf(args[0]), args[1])
	}
	externals[p+"IndexByteString"] = externals[p+"IndexByte"]
	externals[p+"LastIndexByte"] = func(fr *frame, args []value) value {
		cells := cellsOf(args[0])
		for k := len(cells) - 1; k >= 0; k-- {
			if fr.i.ps.decide(cellEq(fr.i, cells[k], args[1])) {
				return k
			}
		}
		return -1
	}
	externals[p+"LastIndexByteString"] = externals[p+"LastIndexByte"]
	externals[p+"Count"] = func(fr *frame, args []value) value {
		i := fr.i
		cells := cellsOf(args[0])
		sum := i.ts.Const(64, 0)
		for _, b := range cells {
			sum = i.ts.Bin("bvadd", sum, i.ts.BoolToBV(cellEq(i, b, args[1]), 64))
		}
		return valOf(sum, types.Int)
	}
	externals[p+"CountString"] = externals[p+"Count"]
	externals[p+"Equal"] = func(fr *frame, args []value) value {
		return valOf(cellsEqTerm(fr.i, cellsOf(args[0]), cellsOf(args[1])), types.Bool)
	}
	externals[p+"Compare"] = func(fr *frame, args []value) value {
		return compareCells(fr.i, cellsOf(args[0]), cellsOf(args[1]))
	}
	externals[p+"CompareString"] = externals[p+"Compare"]
	externals[p+"Index"] = func(fr *frame, args []value) value {
		return indexCells(fr.i, cellsOf(args[0]), cellsOf(args[1]))
	}
	externals[p+"IndexString"] = externals[p+"Index"]
	externals[p+"MakeNoZero"] = func(fr *frame, args []value) value {
		n := fr.i.asIntC(args[0])
		out := make([]value, n)
		for k := range out {
			out[k] = uint8(0)
		}
		return out
	}
	externals[p+"Cutover"] = func(fr *frame, args []value) value { return 4 }
	// bytes.Equal / bytes.Compare / strings helpers that are hot and simple
	externals["bytes.Equal"] = externals[p+"Equal"]
	externals["bytes.Compare"] = externals[p+"Compare"]
	externals["strings.Compare"] = externals[p+"Compare"]
	externals["bytes.IndexByte"] = externals[p+"IndexByte"]
	externals["strings.IndexByte"] = externals[p+"IndexByte"]
	externals["strings.Index"] = func(fr *frame, args []value) value {
		if a, ok := args[0].(string); ok {
			if b, ok := args[1].(string); ok {
				return indexConcrete(a, b)
			}
		}
		return indexCells(fr.i, cellsOf(args[0]), cellsOf(args[1]))
	}
	externals["bytes.Index"] = func(fr *frame, args []value) value {
		return indexCells(fr.i, cellsOf(args[0]), cellsOf(args[1]))
	}
	externals["strings.HasPrefix"] = func(fr *frame, args []value) value {
		i := fr.i
		s, pre := cellsOf(args[0]), cellsOf(args[1])
		if len(pre) > len(s) {
			return false
		}
		return valOf(cellsEqTerm(i, s[:len(pre)], pre), types.Bool)
	}
	externals["strings.HasSuffix"] = func(fr *frame, args []value) value {
		i := fr.i
		s, suf := cellsOf(args[0]), cellsOf(args[1])
		if len(suf) > len(s) {
			return false
		}
		return valOf(cellsEqTerm(i, s[len(s)-len(suf):], suf), types.Bool)
	}
	externals["bytes.HasPrefix"] = externals["strings.HasPrefix"]
	externals["bytes.HasSuffix"] = externals["strings.HasSuffix"]
	externals["internal/stringslite.HasPrefix"] = externals["strings.HasPrefix"]
	externals["internal/stringslite.HasSuffix"] = externals["strings.HasSuffix"]
	externals["internal/stringslite.Index"] = externals["strings.Index"]
	externals["internal/stringslite.Clone"] = func(fr *frame, args []value) value { return args[0] }
	externals["strings.Clone"] = externals["internal/stringslite.Clone"]
	externals["internal/stringslite.IndexByte"] = externals[p+"IndexByte"]
	// strings.Builder: grows a cell buffer kept in a side table (its String() uses unsafe)
	externals["(*strings.Builder).String"] = func(fr *frame, args []value) value {
		return mkStr(fr.i.builderBuf(args[0].(*value)))
	}
	externals["(*strings.Builder).Len"] = func(fr *frame, args []value) value {
		return len(fr.i.builderBuf(args[0].(*value)))
	}
	externals["(*strings.Builder).Cap"] = func(fr *frame, args []value) value {
		return len(fr.i.builderBuf(args[0].(*value)))
	}
	externals["(*strings.Builder).Reset"] = func(fr *frame, args []value) value {
		fr.i.setBuilderBuf(args[0].(*value), nil)
		return nil
	}
	externals["(*strings.Builder).Grow"] = func(fr *frame, args []value) value { return nil }
	externals["(*strings.Builder).WriteString"] = func(fr *frame, args []value) value {
		p := args[0].(*value)
		c := strCells(args[1])
		fr.i.setBuilderBuf(p, append(fr.i.builderBuf(p), c...))
		return tuple{len(c), iface{}}
	}
	externals["(*strings.Builder).Write"] = func(fr *frame, args []value) value {
		p := args[0].(*value)
		c := args[1].([]value)
		fr.i.setBuilderBuf(p, append(fr.i.builderBuf(p), c...))
		return tuple{len(c), iface{}}
	}
	externals["(*strings.Builder).WriteByte"] = func(fr *frame, args []value) value {
		p := args[0].(*value)
		fr.i.setBuilderBuf(p, append(fr.i.builderBuf(p), args[1]))
		return iface{}
	}
	externals["(*strings.Builder).WriteRune"] = func(fr *frame, args []value) value {
		i := fr.i
		p := args[0].(*value)
		buf := i.builderBuf(p)
		if sr, ok := args[1].(sym); ok {
			// symbolic rune: the encoding class is decided, the bytes stay symbolic
			cells := strCells(encodeRuneSym(i, sr))
			buf = append(buf, cells...)
			i.setBuilderBuf(p, buf)
			return tuple{len(cells), iface{}}
		}
		r := rune(i.asIntC(args[1]))
		bs := []byte(string(r))
		for _, b := range bs {
			buf = append(buf, b)
		}
		i.setBuilderBuf(p, buf)
		return tuple{len(bs), iface{}}
	}
}

func indexConcrete(a, b string) int {
	n := len(b)
	for k := 0; k+n <= len(a); k++ {
		if a[k:k+n] == b {
			return k
		}
	}
	return -1
}

func (i *interpreter) builderBuf(p *value) []value {
	m, _ := i.hostState["builders"].(map[*value][]value)
	return m[p]
}

func (i *interpreter) setBuilderBuf(p *value, b []value) {
	m, _ := i.hostState["builders"].(map[*value][]value)
	if m == nil {
		m = map[*value][]value{}
		i.hostState["builders"] = m
	}
	m[p] = b
}
