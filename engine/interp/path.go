package interp

// Path state: decisions, path condition, assertions (re-execution based
// exploration, DART style).

import (
	"fmt"
	"sort"
	"strings"
)

type Decision struct {
	Taken  bool   `json:"t"`
	IsVal  bool   `json:"c,omitempty"` // concretisation decision: term == Val ?
	Val    uint64 `json:"v,omitempty"`
	Forced bool   `json:"f,omitempty"` // only one side was feasible
}

type Violation struct {
	Harness string            `json:"harness"`
	Label   string            `json:"label"`
	Kind    string            `json:"kind"` // assert | panic | deadlock | nontermination
	Detail  string            `json:"detail,omitempty"`
	Model   map[string]uint64 `json:"model"`
	Order   []string          `json:"order"` // nondet names in creation order
	Path    string            `json:"path"`
	Script  string            `json:"-"`
	Known   string            `json:"known,omitempty"` // id of the listed finding whose region this lies in
}

type Observation struct {
	Name string
	Val  value
}

// pathEnd is thrown (by panic) to end the current path from anywhere.
type pathEnd struct {
	outcome string // infeasible | unsupported | budget | unwind | deadlock | unknown | nondet-mismatch
	detail  string
}

// abortTask is thrown in tasks other than the one that ended the path.
type abortTask struct{}

type PathResult struct {
	Outcome    string
	Detail     string
	Trace      []Decision
	Siblings   [][]Decision
	Violations []Violation
	Covers     []string
	Decisions  int // symbolic decisions (both sides feasible) on this path
	Instrs     int64
	Funcs      map[string]bool
	Stubs      map[string]bool
	Bounds     map[string][2]int64
	Assumes    int
	Model      map[string]uint64 // a model of the final path condition (for validation sampling)
	Order      []string
	Observed   []ObservedVal
	Asserts    int // assertion obligations discharged (unsat) on this path
	Stats      SolverStats
	Scripts    []string // standalone scripts of assertion queries
	KnownSeen  []Violation
	TermClaim  bool
}

type ObservedVal struct {
	Name string `json:"name"`
	Val  string `json:"val"`
}

type pathState struct {
	i       *interpreter
	ts      *TermStore
	solver  *Solver
	prefix  []Decision
	pos     int
	res     *PathResult
	varSeq  map[string]int
	order   []string
	harness string
	// limits
	budget       int64
	unwind       int
	termClaim    bool // exceeding budget is a violation ("terminates")
	noPanicClaim bool
	observes     []Observation
	keepScripts  bool
	unknownSeen  bool
	known        map[string]bool // ids of listed findings
	crashRegions []crashRegion
}

type crashRegion struct {
	id     string
	region *Term
}

func (ps *pathState) end(outcome, detail string) {
	panic(pathEnd{outcome, detail})
}

func (ps *pathState) unsupported(format string, args ...interface{}) {
	panic(pathEnd{"unsupported", fmt.Sprintf(format, args...)})
}

func (ps *pathState) newVar(name string, w Sort) *Term {
	ps.varSeq[name]++
	if n := ps.varSeq[name]; n > 1 {
		name = fmt.Sprintf("%s#%d", name, n)
	}
	ps.order = append(ps.order, name)
	return ps.ts.Var(name, w)
}

func (ps *pathState) pathString() string {
	var sb strings.Builder
	for _, d := range ps.res.Trace {
		if d.IsVal {
			if d.Taken {
				fmt.Fprintf(&sb, "[=%d]", d.Val)
			} else {
				fmt.Fprintf(&sb, "[!%d]", d.Val)
			}
		} else if d.Taken {
			sb.WriteByte('T')
		} else {
			sb.WriteByte('F')
		}
	}
	return sb.String()
}

// decide returns the truth value of cond on this path, forking if both are feasible.
func (ps *pathState) decide(cond *Term) bool {
	if cond.sort != 0 {
		panic("decide: non-boolean term")
	}
	if cond.IsConst() {
		return cond.val != 0
	}
	if ps.pos < len(ps.prefix) {
		d := ps.prefix[ps.pos]
		if d.IsVal {
			ps.end("nondet-mismatch", "replayed decision kind differs (expected branch)")
		}
		ps.pos++
		ps.res.Trace = append(ps.res.Trace, d)
		if d.Taken {
			ps.solver.Assert(cond)
		} else {
			ps.solver.Assert(ps.ts.Not(cond))
		}
		if !d.Forced {
			ps.res.Decisions++
		}
		return d.Taken
	}
	ncond := ps.ts.Not(cond)
	rt := ps.solver.Check(0, cond)
	rf := ps.solver.Check(0, ncond)
	if rt == Unknown || rf == Unknown {
		ps.unknownSeen = true
	}
	canT := rt != Unsat
	canF := rf != Unsat
	switch {
	case canT && canF:
		sib := make([]Decision, len(ps.res.Trace), len(ps.res.Trace)+1)
		copy(sib, ps.res.Trace)
		sib = append(sib, Decision{Taken: false})
		ps.res.Siblings = append(ps.res.Siblings, sib)
		ps.res.Trace = append(ps.res.Trace, Decision{Taken: true})
		ps.res.Decisions++
		ps.solver.Assert(cond)
		if ps.unwind > 0 && ps.res.Decisions > ps.unwind {
			ps.end("unwind", fmt.Sprintf("more than %d symbolic decisions on one path", ps.unwind))
		}
		return true
	case canT:
		ps.res.Trace = append(ps.res.Trace, Decision{Taken: true, Forced: true})
		return true
	case canF:
		ps.res.Trace = append(ps.res.Trace, Decision{Taken: false, Forced: true})
		return false
	}
	ps.end("infeasible", "path condition became unsatisfiable")
	return false
}

// concretize picks a concrete value for t (forking over alternatives).
func (ps *pathState) concretize(t *Term) uint64 {
	if t.IsConst() {
		return t.val
	}
	for n := 0; ; n++ {
		var v uint64
		if ps.pos < len(ps.prefix) {
			d := ps.prefix[ps.pos]
			if !d.IsVal {
				ps.end("nondet-mismatch", "replayed decision kind differs (expected value)")
			}
			ps.pos++
			ps.res.Trace = append(ps.res.Trace, d)
			eq := ps.ts.Cmp("=", t, ps.ts.Const(t.sort, d.Val))
			if d.Taken {
				ps.solver.Assert(eq)
				if !d.Forced {
					ps.res.Decisions++
				}
				return d.Val
			}
			ps.solver.Assert(ps.ts.Not(eq))
			continue
		}
		r := ps.solver.Check(0)
		if r == Unsat {
			ps.end("infeasible", "path condition became unsatisfiable")
		}
		if r == Unknown {
			ps.end("unknown", "solver returned unknown while concretising")
		}
		var ok bool
		v, ok = ps.solver.Value(t)
		if !ok {
			ps.end("unknown", "could not read model value")
		}
		eq := ps.ts.Cmp("=", t, ps.ts.Const(t.sort, v))
		neq := ps.ts.Not(eq)
		rf := ps.solver.Check(0, neq)
		if rf == Unknown {
			ps.unknownSeen = true
		}
		if rf == Unsat {
			ps.res.Trace = append(ps.res.Trace, Decision{Taken: true, IsVal: true, Val: v, Forced: true})
			return v
		}
		sib := make([]Decision, len(ps.res.Trace), len(ps.res.Trace)+1)
		copy(sib, ps.res.Trace)
		sib = append(sib, Decision{Taken: false, IsVal: true, Val: v})
		ps.res.Siblings = append(ps.res.Siblings, sib)
		ps.res.Trace = append(ps.res.Trace, Decision{Taken: true, IsVal: true, Val: v})
		ps.res.Decisions++
		ps.solver.Assert(eq)
		if ps.unwind > 0 && ps.res.Decisions > ps.unwind {
			ps.end("unwind", fmt.Sprintf("more than %d symbolic decisions on one path", ps.unwind))
		}
		return v
	}
}

// chooseFresh enumerates the k values of a fresh variable t in [0,k) directly:
// no other constraint mentions t yet, so every value is feasible and no solver
// call is needed to fork.
func (ps *pathState) chooseFresh(t *Term, k int) uint64 {
	if ps.pos < len(ps.prefix) {
		d := ps.prefix[ps.pos]
		if !d.IsVal || !d.Taken {
			ps.end("nondet-mismatch", "replayed decision kind differs (expected choice)")
		}
		ps.pos++
		ps.res.Trace = append(ps.res.Trace, d)
		ps.solver.Assert(ps.ts.Cmp("=", t, ps.ts.Const(t.sort, d.Val)))
		ps.res.Decisions++
		return d.Val
	}
	for v := 1; v < k; v++ {
		sib := make([]Decision, len(ps.res.Trace), len(ps.res.Trace)+1)
		copy(sib, ps.res.Trace)
		sib = append(sib, Decision{Taken: true, IsVal: true, Val: uint64(v)})
		ps.res.Siblings = append(ps.res.Siblings, sib)
	}
	ps.res.Trace = append(ps.res.Trace, Decision{Taken: true, IsVal: true, Val: 0})
	ps.res.Decisions++
	ps.solver.Assert(ps.ts.Cmp("=", t, ps.ts.Const(t.sort, 0)))
	return 0
}

func (ps *pathState) assume(cond *Term) {
	if cond.IsConst() {
		if cond.val == 0 {
			ps.end("infeasible", "assumption false")
		}
		return
	}
	ps.res.Assumes++
	ps.solver.Assert(cond)
	// Feasibility is checked lazily: only when at the frontier.
	if ps.pos >= len(ps.prefix) {
		r := ps.solver.Check(0)
		if r == Unsat {
			ps.end("infeasible", "assumption unsatisfiable")
		}
		if r == Unknown {
			ps.unknownSeen = true
		}
	}
}

func (ps *pathState) model() map[string]uint64 {
	return ps.solver.Model()
}

func (ps *pathState) violation(kind, label, detail string, m map[string]uint64, script string) {
	ps.res.Violations = append(ps.res.Violations, Violation{
		Harness: ps.harness, Label: label, Kind: kind, Detail: detail, Model: m,
		Order: append([]string(nil), ps.order...), Path: ps.pathString(), Script: script,
	})
}

// assertProp checks pc => cond.
func (ps *pathState) assertProp(cond *Term, label string) {
	if cond.IsConst() && cond.val != 0 {
		ps.res.Asserts++
		return
	}
	ncond := ps.ts.Not(cond)
	var script string
	if ps.keepScripts {
		script = ps.solver.Script(ncond)
	}
	r := ps.solver.Check(1, ncond)
	switch r {
	case Unsat:
		ps.res.Asserts++
		if ps.keepScripts {
			ps.res.Scripts = append(ps.res.Scripts, script)
		}
		return
	case Unknown:
		ps.end("unknown", "solver returned unknown on assertion "+label)
	}
	m := ps.model()
	ps.violation("assert", label, "", m, script)
	// continue the path under the assumption that the assertion held
	if cond.IsConst() {
		ps.end("violated", "assertion "+label+" is false on every input of this path")
	}
	ps.solver.Assert(cond)
	if ps.solver.Check(0) != Sat {
		ps.end("violated", "assertion "+label+" fails on every input of this path")
	}
}

func (ps *pathState) cover(label string) {
	for _, c := range ps.res.Covers {
		if c == label {
			return
		}
	}
	ps.res.Covers = append(ps.res.Covers, label)
}

func sortedKeys(m map[string]bool) []string {
	var ks []string
	for k := range m {
		ks = append(ks, k)
	}
	sort.Strings(ks)
	return ks
}

// assertRegion is assertProp with a known-finding region.
func (ps *pathState) assertRegion(cond *Term, label, finding string, region *Term) {
	if !ps.known[finding] {
		ps.assertProp(cond, label)
		return
	}
	if cond.IsConst() && cond.val != 0 {
		ps.res.Asserts++
		return
	}
	ncond := ps.ts.Not(cond)
	// 1. violations outside the listed region
	outside := ps.ts.And(ncond, ps.ts.Not(region))
	if !(outside.IsConst() && outside.val == 0) {
		r := ps.solver.Check(1, outside)
		switch r {
		case Sat:
			ps.violation("assert", label, "outside the region of listed finding "+finding, ps.model(), "")
		case Unknown:
			ps.end("unknown", "solver returned unknown on assertion "+label)
		default:
			ps.res.Asserts++
		}
	}
	// 2. the listed finding itself
	inside := ps.ts.And(ncond, region)
	if !(inside.IsConst() && inside.val == 0) {
		if ps.solver.Check(1, inside) == Sat {
			v := Violation{Harness: ps.harness, Label: label, Kind: "assert", Model: ps.model(),
				Order: append([]string(nil), ps.order...), Path: ps.pathString(), Known: finding}
			ps.res.KnownSeen = append(ps.res.KnownSeen, v)
		}
	}
	if cond.IsConst() {
		ps.end("violated", "assertion "+label+" is false on every input of this path")
	}
	ps.solver.Assert(cond)
	if ps.solver.Check(0) != Sat {
		ps.end("violated", "assertion "+label+" fails on every input of this path")
	}
}

// crash classifies a crash / hang at path end against declared regions.
func (ps *pathState) crash(kind, label, detail string) {
	ts := ps.ts
	out := ts.Bool(true)
	for _, cr := range ps.crashRegions {
		if ps.known[cr.id] {
			out = ts.And(out, ts.Not(cr.region))
		}
	}
	if !(out.IsConst() && out.val == 0) {
		if ps.solver.Check(1, out) == Sat {
			ps.violation(kind, label, detail, ps.model(), "")
		}
	}
	for _, cr := range ps.crashRegions {
		if !ps.known[cr.id] {
			continue
		}
		if cr.region.IsConst() && cr.region.val == 0 {
			continue
		}
		if ps.solver.Check(1, cr.region) == Sat {
			v := Violation{Harness: ps.harness, Label: label, Kind: kind, Detail: detail, Model: ps.model(),
				Order: append([]string(nil), ps.order...), Path: ps.pathString(), Known: cr.id}
			ps.res.KnownSeen = append(ps.res.KnownSeen, v)
		}
	}
}
