package interp

// SMT term DAG (QF_BV + Bool), hash-consed per path, with constant folding.

import (
	"fmt"
	"strconv"
	"strings"
)

// Sort: 0 = Bool, otherwise bit-vector width.
type Sort uint8

type Term struct {
	op   string // "const", "var", or SMT operator name
	args []*Term
	sort Sort
	val  uint64 // for const (bool: 0/1)
	name string // for var
	p0   int    // extract hi / extend amount
	p1   int    // extract lo
	id   int
}

func (t *Term) IsConst() bool { return t.op == "const" }

type TermStore struct {
	tab   map[string]*Term
	terms []*Term
	vars  []*Term
}

func NewTermStore() *TermStore {
	return &TermStore{tab: make(map[string]*Term)}
}

func mask(w Sort) uint64 {
	if w >= 64 {
		return ^uint64(0)
	}
	return (uint64(1) << w) - 1
}

func (ts *TermStore) intern(t *Term) *Term {
	var sb strings.Builder
	sb.WriteString(t.op)
	sb.WriteByte('|')
	sb.WriteString(strconv.Itoa(int(t.sort)))
	switch t.op {
	case "const":
		sb.WriteByte('|')
		sb.WriteString(strconv.FormatUint(t.val, 16))
	case "var":
		sb.WriteByte('|')
		sb.WriteString(t.name)
	default:
		for _, a := range t.args {
			sb.WriteByte('|')
			sb.WriteString(strconv.Itoa(a.id))
		}
		if t.p0 != 0 || t.p1 != 0 {
			sb.WriteString("#" + strconv.Itoa(t.p0) + "," + strconv.Itoa(t.p1))
		}
	}
	k := sb.String()
	if e, ok := ts.tab[k]; ok {
		return e
	}
	t.id = len(ts.terms)
	ts.terms = append(ts.terms, t)
	ts.tab[k] = t
	if t.op == "var" {
		ts.vars = append(ts.vars, t)
	}
	return t
}

func (ts *TermStore) Const(w Sort, v uint64) *Term {
	if w == 0 {
		if v != 0 {
			v = 1
		}
	} else {
		v &= mask(w)
	}
	return ts.intern(&Term{op: "const", sort: w, val: v})
}
func (ts *TermStore) Bool(b bool) *Term {
	if b {
		return ts.Const(0, 1)
	}
	return ts.Const(0, 0)
}
func (ts *TermStore) Var(name string, w Sort) *Term {
	return ts.intern(&Term{op: "var", sort: w, name: name})
}

func sext(v uint64, w Sort) int64 {
	if w >= 64 {
		return int64(v)
	}
	sh := 64 - uint(w)
	return int64(v<<sh) >> sh
}

// Bin builds a binary bit-vector operation (both args same width).
func (ts *TermStore) Bin(op string, a, b *Term) *Term {
	if a.sort != b.sort {
		panic(fmt.Sprintf("term: sort mismatch in %s: %d vs %d", op, a.sort, b.sort))
	}
	w := a.sort
	if a.IsConst() && b.IsConst() {
		x, y := a.val, b.val
		var r uint64
		ok := true
		switch op {
		case "bvadd":
			r = x + y
		case "bvsub":
			r = x - y
		case "bvmul":
			r = x * y
		case "bvand":
			r = x & y
		case "bvor":
			r = x | y
		case "bvxor":
			r = x ^ y
		case "bvudiv":
			if y == 0 {
				r = mask(w)
			} else {
				r = x / y
			}
		case "bvurem":
			if y == 0 {
				r = x
			} else {
				r = x % y
			}
		case "bvsdiv":
			sx, sy := sext(x, w), sext(y, w)
			if sy == 0 {
				if sx < 0 {
					r = 1
				} else {
					r = mask(w)
				}
			} else if sy == -1 {
				r = uint64(-sx)
			} else {
				r = uint64(sx / sy)
			}
		case "bvsrem":
			sx, sy := sext(x, w), sext(y, w)
			if sy == 0 {
				r = x
			} else if sy == -1 {
				r = 0
			} else {
				r = uint64(sx % sy)
			}
		case "bvshl":
			if y >= uint64(w) {
				r = 0
			} else {
				r = x << y
			}
		case "bvlshr":
			if y >= uint64(w) {
				r = 0
			} else {
				r = x >> y
			}
		case "bvashr":
			sx := sext(x, w)
			if y >= uint64(w) {
				if sx < 0 {
					r = mask(w)
				} else {
					r = 0
				}
			} else {
				r = uint64(sx >> y)
			}
		default:
			ok = false
		}
		if ok {
			return ts.Const(w, r)
		}
	}
	// light simplifications
	switch op {
	case "bvadd", "bvor", "bvxor":
		if a.IsConst() && a.val == 0 {
			return b
		}
		if b.IsConst() && b.val == 0 {
			return a
		}
	case "bvsub", "bvshl", "bvlshr", "bvashr":
		if b.IsConst() && b.val == 0 {
			return a
		}
	case "bvmul":
		if a.IsConst() && a.val == 1 {
			return b
		}
		if b.IsConst() && b.val == 1 {
			return a
		}
		if (a.IsConst() && a.val == 0) || (b.IsConst() && b.val == 0) {
			return ts.Const(w, 0)
		}
	case "bvand":
		if (a.IsConst() && a.val == 0) || (b.IsConst() && b.val == 0) {
			return ts.Const(w, 0)
		}
		if a.IsConst() && a.val == mask(w) {
			return b
		}
		if b.IsConst() && b.val == mask(w) {
			return a
		}
	}
	return ts.intern(&Term{op: op, args: []*Term{a, b}, sort: w})
}

// Cmp builds a comparison: "=", "bvult", "bvule", "bvslt", "bvsle".
func (ts *TermStore) Cmp(op string, a, b *Term) *Term {
	if a.sort != b.sort {
		panic(fmt.Sprintf("term: sort mismatch in %s: %d vs %d", op, a.sort, b.sort))
	}
	if a == b {
		switch op {
		case "=", "bvule", "bvsle":
			return ts.Bool(true)
		default:
			return ts.Bool(false)
		}
	}
	if a.IsConst() && b.IsConst() {
		w := a.sort
		switch op {
		case "=":
			return ts.Bool(a.val == b.val)
		case "bvult":
			return ts.Bool(a.val < b.val)
		case "bvule":
			return ts.Bool(a.val <= b.val)
		case "bvslt":
			return ts.Bool(sext(a.val, w) < sext(b.val, w))
		case "bvsle":
			return ts.Bool(sext(a.val, w) <= sext(b.val, w))
		}
	}
	if op == "=" && a.sort == 0 {
		if a.IsConst() {
			if a.val == 1 {
				return b
			}
			return ts.Not(b)
		}
		if b.IsConst() {
			if b.val == 1 {
				return a
			}
			return ts.Not(a)
		}
	}
	if op == "=" && a.id > b.id {
		a, b = b, a
	}
	return ts.intern(&Term{op: op, args: []*Term{a, b}, sort: 0})
}

func (ts *TermStore) Not(a *Term) *Term {
	if a.IsConst() {
		return ts.Bool(a.val == 0)
	}
	if a.op == "not" {
		return a.args[0]
	}
	return ts.intern(&Term{op: "not", args: []*Term{a}, sort: 0})
}

func (ts *TermStore) And(a, b *Term) *Term {
	if a.IsConst() {
		if a.val == 0 {
			return a
		}
		return b
	}
	if b.IsConst() {
		if b.val == 0 {
			return b
		}
		return a
	}
	if a == b {
		return a
	}
	return ts.intern(&Term{op: "and", args: []*Term{a, b}, sort: 0})
}

func (ts *TermStore) Or(a, b *Term) *Term {
	if a.IsConst() {
		if a.val == 1 {
			return a
		}
		return b
	}
	if b.IsConst() {
		if b.val == 1 {
			return b
		}
		return a
	}
	if a == b {
		return a
	}
	return ts.intern(&Term{op: "or", args: []*Term{a, b}, sort: 0})
}

func (ts *TermStore) Ite(c, a, b *Term) *Term {
	if c.IsConst() {
		if c.val == 1 {
			return a
		}
		return b
	}
	if a == b {
		return a
	}
	if a.sort != b.sort {
		panic("term: ite sort mismatch")
	}
	if a.sort == 0 && a.IsConst() && b.IsConst() {
		if a.val == 1 {
			return c
		}
		return ts.Not(c)
	}
	return ts.intern(&Term{op: "ite", args: []*Term{c, a, b}, sort: a.sort})
}

func (ts *TermStore) BvNot(a *Term) *Term {
	if a.IsConst() {
		return ts.Const(a.sort, ^a.val)
	}
	return ts.intern(&Term{op: "bvnot", args: []*Term{a}, sort: a.sort})
}

func (ts *TermStore) BvNeg(a *Term) *Term {
	if a.IsConst() {
		return ts.Const(a.sort, -a.val)
	}
	return ts.intern(&Term{op: "bvneg", args: []*Term{a}, sort: a.sort})
}

// Resize converts a to width w with sign or zero extension / truncation.
func (ts *TermStore) Resize(a *Term, w Sort, signed bool) *Term {
	if a.sort == w {
		return a
	}
	if a.IsConst() {
		if w > a.sort && signed {
			return ts.Const(w, uint64(sext(a.val, a.sort)))
		}
		return ts.Const(w, a.val)
	}
	if w < a.sort {
		return ts.intern(&Term{op: "extract", args: []*Term{a}, sort: w, p0: int(w) - 1, p1: 0})
	}
	op := "zero_extend"
	if signed {
		op = "sign_extend"
	}
	return ts.intern(&Term{op: op, args: []*Term{a}, sort: w, p0: int(w - a.sort)})
}

// BoolToBV returns ite(b, 1, 0) of width w.
func (ts *TermStore) BoolToBV(b *Term, w Sort) *Term {
	return ts.Ite(b, ts.Const(w, 1), ts.Const(w, 0))
}

func sortStr(s Sort) string {
	if s == 0 {
		return "Bool"
	}
	return fmt.Sprintf("(_ BitVec %d)", s)
}

func constStr(t *Term) string {
	if t.sort == 0 {
		if t.val != 0 {
			return "true"
		}
		return "false"
	}
	if t.sort%4 == 0 {
		return fmt.Sprintf("#x%0*x", int(t.sort)/4, t.val)
	}
	return fmt.Sprintf("(_ bv%d %d)", t.val, t.sort)
}

// ref returns the SMT-LIB name by which a term is referred to once defined.
func (t *Term) ref() string {
	switch t.op {
	case "const":
		return constStr(t)
	case "var":
		return "|" + t.name + "|"
	}
	return "t" + strconv.Itoa(t.id)
}

// body returns the defining expression of a non-leaf term using refs of its args.
func (t *Term) body() string {
	var sb strings.Builder
	switch t.op {
	case "extract":
		fmt.Fprintf(&sb, "((_ extract %d %d) %s)", t.p0, t.p1, t.args[0].ref())
		return sb.String()
	case "zero_extend", "sign_extend":
		fmt.Fprintf(&sb, "((_ %s %d) %s)", t.op, t.p0, t.args[0].ref())
		return sb.String()
	}
	sb.WriteByte('(')
	sb.WriteString(t.op)
	for _, a := range t.args {
		sb.WriteByte(' ')
		sb.WriteString(a.ref())
	}
	sb.WriteByte(')')
	return sb.String()
}

// Eval evaluates t under an assignment of variables (by name).
func (t *Term) Eval(ts *TermStore, m map[string]uint64, memo map[*Term]uint64) uint64 {
	if v, ok := memo[t]; ok {
		return v
	}
	var r uint64
	switch t.op {
	case "const":
		r = t.val
	case "var":
		r = m[t.name]
		if t.sort != 0 {
			r &= mask(t.sort)
		}
	default:
		av := make([]uint64, len(t.args))
		for i, a := range t.args {
			av[i] = a.Eval(ts, m, memo)
		}
		tmp := NewTermStore()
		cs := make([]*Term, len(t.args))
		for i, a := range t.args {
			cs[i] = tmp.Const(a.sort, av[i])
		}
		var res *Term
		switch t.op {
		case "not":
			res = tmp.Not(cs[0])
		case "and":
			res = tmp.And(cs[0], cs[1])
		case "or":
			res = tmp.Or(cs[0], cs[1])
		case "ite":
			res = tmp.Ite(cs[0], cs[1], cs[2])
		case "bvnot":
			res = tmp.BvNot(cs[0])
		case "bvneg":
			res = tmp.BvNeg(cs[0])
		case "extract":
			res = tmp.Const(t.sort, cs[0].val)
		case "zero_extend":
			res = tmp.Const(t.sort, cs[0].val)
		case "sign_extend":
			res = tmp.Const(t.sort, uint64(sext(cs[0].val, cs[0].sort)))
		case "=", "bvult", "bvule", "bvslt", "bvsle":
			res = tmp.Cmp(t.op, cs[0], cs[1])
		default:
			res = tmp.Bin(t.op, cs[0], cs[1])
		}
		if !res.IsConst() {
			panic("term eval: non-constant result for " + t.op)
		}
		r = res.val
	}
	memo[t] = r
	return r
}
