package interp

// Values. Forked from golang.org/x/tools/go/ssa/interp (BSD licence), extended
// with symbolic scalars (sym), strings with symbolic bytes (symstr),
// deterministic insertion-ordered maps (omap) and modelled channels (vchan).
//
// Dynamic types of value:
//   bool, int*, uint*, uintptr, float32/64, complex*, string
//   sym           symbolic scalar (Bool or integer kind)
//   symstr        string of concrete length with at least one symbolic byte
//   *omap         maps
//   *vchan        channels
//   []value       slices
//   iface, structure, array, *value, *ssa.Function, *ssa.Builtin, *closure,
//   tuple, iter, bad, rtype, **deferred

import (
	"bytes"
	"fmt"
	"go/types"
	"unsafe"

	"golang.org/x/tools/go/ssa"
	"golang.org/x/tools/go/types/typeutil"
)

type value interface{}

type tuple []value

type array []value

type iface struct {
	t types.Type // never an "untyped" type
	v value
}

type structure []value

type sym struct {
	t *Term
	k types.BasicKind
}

// symstr is an immutable string whose bytes may be symbolic (uint8 or sym).
type symstr struct {
	b []value
}

type iter interface {
	next(i *interpreter) tuple
}

type closure struct {
	Fn  *ssa.Function
	Env []value
}

type bad struct{}

type rtype struct {
	t types.Type
}

func kindWidth(k types.BasicKind) Sort {
	switch k {
	case types.Bool, types.UntypedBool:
		return 0
	case types.Int8, types.Uint8:
		return 8
	case types.Int16, types.Uint16:
		return 16
	case types.Int32, types.Uint32, types.UntypedRune:
		return 32
	case types.Int, types.Int64, types.Uint, types.Uint64, types.Uintptr, types.UntypedInt:
		return 64
	}
	panic(fmt.Sprintf("kindWidth: unexpected kind %v", k))
}

func kindSigned(k types.BasicKind) bool {
	switch k {
	case types.Int, types.Int8, types.Int16, types.Int32, types.Int64, types.UntypedInt, types.UntypedRune:
		return true
	}
	return false
}

func isIntKind(k types.BasicKind) bool {
	switch k {
	case types.Int, types.Int8, types.Int16, types.Int32, types.Int64,
		types.Uint, types.Uint8, types.Uint16, types.Uint32, types.Uint64, types.Uintptr,
		types.UntypedInt, types.UntypedRune:
		return true
	}
	return false
}

// intOf decomposes a concrete integer value.
func intOf(v value) (u uint64, k types.BasicKind, ok bool) {
	switch x := v.(type) {
	case int:
		return uint64(x), types.Int, true
	case int8:
		return uint64(x), types.Int8, true
	case int16:
		return uint64(x), types.Int16, true
	case int32:
		return uint64(x), types.Int32, true
	case int64:
		return uint64(x), types.Int64, true
	case uint:
		return uint64(x), types.Uint, true
	case uint8:
		return uint64(x), types.Uint8, true
	case uint16:
		return uint64(x), types.Uint16, true
	case uint32:
		return uint64(x), types.Uint32, true
	case uint64:
		return x, types.Uint64, true
	case uintptr:
		return uint64(x), types.Uintptr, true
	}
	return 0, 0, false
}

// mkInt builds the concrete value of integer kind k from the (sign-extended
// or zero-extended) 64-bit pattern u.
func mkInt(k types.BasicKind, u uint64) value {
	switch k {
	case types.Int, types.UntypedInt:
		return int(u)
	case types.Int8:
		return int8(u)
	case types.Int16:
		return int16(u)
	case types.Int32, types.UntypedRune:
		return int32(u)
	case types.Int64:
		return int64(u)
	case types.Uint:
		return uint(u)
	case types.Uint8:
		return uint8(u)
	case types.Uint16:
		return uint16(u)
	case types.Uint32:
		return uint32(u)
	case types.Uint64:
		return u
	case types.Uintptr:
		return uintptr(u)
	case types.Bool:
		return u != 0
	}
	panic(fmt.Sprintf("mkInt: unexpected kind %v", k))
}

// basicKindOf returns the basic kind of a type (after Underlying), or Invalid.
func basicKindOf(t types.Type) types.BasicKind {
	if b, ok := t.Underlying().(*types.Basic); ok {
		k := b.Kind()
		switch k {
		case types.UntypedInt:
			return types.Int
		case types.UntypedRune:
			return types.Int32
		case types.UntypedBool:
			return types.Bool
		case types.UntypedFloat:
			return types.Float64
		case types.UntypedString:
			return types.String
		}
		return k
	}
	return types.Invalid
}

// Hashing of types.

var hasher = typeutil.MakeHasher()

func hashType(t types.Type) int { return int(hasher.Hash(t)) }

func sameType(x, y types.Type) bool {
	if x == nil {
		return y == nil
	}
	return y != nil && types.Identical(x, y)
}

// ---------------------------------------------------------------------
// load / store with value semantics for aggregates.

func load(T types.Type, addr *value) value {
	switch T := T.Underlying().(type) {
	case *types.Struct:
		v := (*addr).(structure)
		a := make(structure, len(v))
		for i := range a {
			a[i] = load(T.Field(i).Type(), &v[i])
		}
		return a
	case *types.Array:
		v := (*addr).(array)
		a := make(array, len(v))
		et := T.Elem()
		if isScalarType(et) {
			copy(a, v)
			return a
		}
		for i := range a {
			a[i] = load(et, &v[i])
		}
		return a
	default:
		return *addr
	}
}

func isScalarType(t types.Type) bool {
	switch t.Underlying().(type) {
	case *types.Struct, *types.Array:
		return false
	}
	return true
}

func store(T types.Type, addr *value, v value) {
	switch T := T.Underlying().(type) {
	case *types.Struct:
		lhs := (*addr).(structure)
		rhs := v.(structure)
		for i := range lhs {
			store(T.Field(i).Type(), &lhs[i], rhs[i])
		}
	case *types.Array:
		lhs := (*addr).(array)
		rhs := v.(array)
		et := T.Elem()
		if isScalarType(et) {
			copy(lhs, rhs)
			return
		}
		for i := range lhs {
			store(et, &lhs[i], rhs[i])
		}
	default:
		*addr = v
	}
}

// copyVal returns an unaliased copy of v of static type T.
func copyVal(T types.Type, v value) value {
	switch T.Underlying().(type) {
	case *types.Struct, *types.Array:
		return load(T, &v)
	}
	return v
}

// ---------------------------------------------------------------------
// Printing (println style), for diagnostics.

func writeValue(buf *bytes.Buffer, v value) {
	switch v := v.(type) {
	case nil, bool, int, int8, int16, int32, int64, uint, uint8, uint16, uint32, uint64, uintptr, float32, float64, complex64, complex128, string:
		fmt.Fprintf(buf, "%v", v)
	case sym:
		fmt.Fprintf(buf, "<sym %s>", v.t.ref())
	case symstr:
		buf.WriteString("<symstr ")
		for _, c := range v.b {
			if b, ok := c.(uint8); ok {
				buf.WriteByte(b)
			} else {
				buf.WriteByte('?')
			}
		}
		buf.WriteString(">")
	case *omap:
		buf.WriteString("map[")
		if v != nil {
			for i, e := range v.live() {
				if i > 0 {
					buf.WriteString(" ")
				}
				writeValue(buf, e.key)
				buf.WriteString(":")
				writeValue(buf, e.val)
			}
		}
		buf.WriteString("]")
	case *vchan:
		fmt.Fprintf(buf, "%p", v)
	case *value:
		if v == nil {
			buf.WriteString("<nil>")
		} else {
			fmt.Fprintf(buf, "%p", v)
		}
	case iface:
		fmt.Fprintf(buf, "(%s, ", v.t)
		writeValue(buf, v.v)
		buf.WriteString(")")
	case structure:
		buf.WriteString("{")
		for i, e := range v {
			if i > 0 {
				buf.WriteString(" ")
			}
			writeValue(buf, e)
		}
		buf.WriteString("}")
	case array:
		buf.WriteString("[")
		for i, e := range v {
			if i > 0 {
				buf.WriteString(" ")
			}
			if i > 32 {
				buf.WriteString("...")
				break
			}
			writeValue(buf, e)
		}
		buf.WriteString("]")
	case []value:
		buf.WriteString("[")
		for i, e := range v {
			if i > 0 {
				buf.WriteString(" ")
			}
			if i > 32 {
				buf.WriteString("...")
				break
			}
			writeValue(buf, e)
		}
		buf.WriteString("]")
	case *ssa.Function, *ssa.Builtin, *closure:
		fmt.Fprintf(buf, "%p", v)
	case rtype:
		buf.WriteString(v.t.String())
	case tuple:
		buf.WriteString("(")
		for i, e := range v {
			if i > 0 {
				buf.WriteString(", ")
			}
			writeValue(buf, e)
		}
		buf.WriteString(")")
	default:
		fmt.Fprintf(buf, "<%T>", v)
	}
}

func toString(v value) string {
	var b bytes.Buffer
	writeValue(&b, v)
	return b.String()
}

var _ = unsafe.Pointer(nil)
