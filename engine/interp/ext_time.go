package interp

// Timers and tickers never fire: they are objects with a channel nobody sends on.

func init() {
	mk := func(name string) externalFn {
		return func(fr *frame, args []value) value {
			t := fr.i.P.lookupType("time", name)
			cell := zero(t)
			st := cell.(structure)
			st[0] = &vchan{capacity: 1}
			fr.i.ps.res.Stubs["time."+name+" (never fires)"] = true
			return &cell
		}
	}
	externals["time.NewTicker"] = mk("Ticker")
	externals["time.NewTimer"] = mk("Timer")
	externals["time.AfterFunc"] = mk("Timer")
	externals["(*time.Ticker).Stop"] = func(fr *frame, args []value) value { return nil }
	externals["(*time.Ticker).Reset"] = func(fr *frame, args []value) value { return nil }
	externals["(*time.Timer).Stop"] = func(fr *frame, args []value) value { return true }
	externals["(*time.Timer).Reset"] = func(fr *frame, args []value) value { return true }
}
