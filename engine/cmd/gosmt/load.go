package main

import (
	"bufio"
	"crypto/sha256"
	"fmt"
	"go/types"
	"os"
	"path/filepath"
	"sort"
	"strings"

	"golang.org/x/tools/go/packages"
	"golang.org/x/tools/go/ssa"
)

type Config struct {
	ID       string
	Tier     string
	Only     string
	Repo     string
	Verif    string
	Replay   string
	Workers  int
	Trace    bool
	NoNative bool
	Verbose  bool
	MaxPaths int
	Scratch  string // when set: out/ and evidence/ go under this directory instead of Verif (mutant / development runs)
}

const repoModule = "github.com/oneconcern/datamon"

// Packages executed from source in addition to the repo packages under test.
var sourceDeps = []string{
	"strings", "bytes", "unicode", "unicode/utf8", "unicode/utf16", "path", "sort", "strconv", "io",
	"container/list", "container/heap", "encoding/binary", "encoding/hex", "bufio", "math/bits", "slices", "cmp",
	"context", "io/ioutil", "path/filepath", "hash/crc32", "math", "time", "encoding/base64", "internal/byteorder", "internal/stringslite", "internal/filepathlite", "io/fs", "internal/oserror",
	"github.com/hashicorp/go-immutable-radix",
	"github.com/hashicorp/golang-lru", "github.com/hashicorp/golang-lru/simplelru",
	"github.com/segmentio/ksuid",
	"golang.org/x/sync/errgroup",
	"github.com/blang/semver",
	"github.com/spf13/afero",
}

type HarnessFile struct {
	Stubs   [][2]string // //verif:stub <target func> <harness func> (same package)
	Src     string // path under /verif/harness/<ID>/
	PkgDir  string // repo-relative package directory
	Uses    []string
	Content []byte
}

type Loaded struct {
	Prog      *ssa.Program
	Pkgs      map[string]*ssa.Package // by import path (source packages only)
	Harnesses []*HarnessFn
	Overlay   map[string][]byte // path -> content ("" content nil means delete)
	PkgDirs   []string
	SrcHash   map[string]string // repo file -> sha256 (files of packages under test)
	Sizes     types.Sizes
	HarnessFiles []*HarnessFile
}

type HarnessFn struct {
	Name   string
	PkgDir string
	Fn     *ssa.Function
	Pkg    *ssa.Package
}

func readHarnessFiles(cfg *Config) ([]*HarnessFile, error) {
	dir := filepath.Join(cfg.Verif, "harness", cfg.ID)
	ents, err := os.ReadDir(dir)
	if err != nil {
		return nil, err
	}
	var out []*HarnessFile
	for _, e := range ents {
		if !strings.HasSuffix(e.Name(), ".go") {
			continue
		}
		p := filepath.Join(dir, e.Name())
		b, err := os.ReadFile(p)
		if err != nil {
			return nil, err
		}
		hf := &HarnessFile{Src: p, Content: b}
		sc := bufio.NewScanner(strings.NewReader(string(b)))
		for sc.Scan() {
			line := strings.TrimSpace(sc.Text())
			if strings.HasPrefix(line, "//verif:pkg ") {
				hf.PkgDir = strings.TrimSpace(strings.TrimPrefix(line, "//verif:pkg "))
			} else if strings.HasPrefix(line, "//verif:use ") {
				for _, u := range strings.Split(strings.TrimPrefix(line, "//verif:use "), ",") {
					hf.Uses = append(hf.Uses, strings.TrimSpace(u))
				}
			} else if strings.HasPrefix(line, "//verif:stub ") {
				f := strings.Fields(strings.TrimPrefix(line, "//verif:stub "))
				if len(f) == 2 {
					hf.Stubs = append(hf.Stubs, [2]string{f[0], f[1]})
				}
			} else if strings.HasPrefix(line, "package ") {
				break
			}
		}
		if hf.PkgDir == "" {
			return nil, fmt.Errorf("%s: missing //verif:pkg directive", p)
		}
		out = append(out, hf)
	}
	if len(out) == 0 {
		return nil, fmt.Errorf("no harness files in %s", dir)
	}
	return out, nil
}

func pkgNameOf(repo, pkgDir string) (string, error) {
	ents, err := os.ReadDir(filepath.Join(repo, pkgDir))
	if err != nil {
		return "", err
	}
	for _, e := range ents {
		if strings.HasSuffix(e.Name(), ".go") && !strings.HasSuffix(e.Name(), "_test.go") {
			b, err := os.ReadFile(filepath.Join(repo, pkgDir, e.Name()))
			if err != nil {
				continue
			}
			for _, line := range strings.Split(string(b), "\n") {
				line = strings.TrimSpace(line)
				if strings.HasPrefix(line, "package ") {
					f := strings.Fields(line)
					return f[1], nil
				}
			}
		}
	}
	return "", fmt.Errorf("no package clause found in %s", pkgDir)
}

// buildOverlay injects harness files, the API file and requested library
// files into their target package directories.
func buildOverlay(cfg *Config, hfs []*HarnessFile) (map[string][]byte, []string, error) {
	ov := make(map[string][]byte)
	seenPkg := map[string]bool{}
	uses := map[string]map[string]bool{}
	var pkgDirs []string
	for _, hf := range hfs {
		if !seenPkg[hf.PkgDir] {
			seenPkg[hf.PkgDir] = true
			pkgDirs = append(pkgDirs, hf.PkgDir)
			uses[hf.PkgDir] = map[string]bool{}
		}
		for _, u := range hf.Uses {
			uses[hf.PkgDir][u] = true
		}
		dst := filepath.Join(cfg.Repo, hf.PkgDir, "zz_verif_h_"+filepath.Base(hf.Src))
		ov[dst] = hf.Content
	}
	for _, pd := range pkgDirs {
		name, err := pkgNameOf(cfg.Repo, pd)
		if err != nil {
			return nil, nil, err
		}
		libs := []string{"api"}
		for u := range uses[pd] {
			libs = append(libs, u)
		}
		sort.Strings(libs)
		for _, lib := range libs {
			src := filepath.Join(cfg.Verif, "harness", "lib", lib+".go.tmpl")
			b, err := os.ReadFile(src)
			if err != nil {
				return nil, nil, err
			}
			content := strings.Replace(string(b), "package PKG", "package "+name, 1)
			ov[filepath.Join(cfg.Repo, pd, "zz_verif_"+lib+".go")] = []byte(content)
		}
	}
	return ov, pkgDirs, nil
}

func load(cfg *Config) (*Loaded, error) {
	hfs, err := readHarnessFiles(cfg)
	if err != nil {
		return nil, err
	}
	ov, pkgDirs, err := buildOverlay(cfg, hfs)
	if err != nil {
		return nil, err
	}
	var patterns []string
	for _, pd := range pkgDirs {
		patterns = append(patterns, repoModule+"/"+pd)
	}
	// all repo packages reachable are loaded from source as well: ask for ./pkg/... lazily via deps walk below
	patterns = append(patterns, sourceDeps...)
	pcfg := &packages.Config{
		Mode: packages.NeedName | packages.NeedFiles | packages.NeedCompiledGoFiles | packages.NeedImports |
			packages.NeedTypes | packages.NeedTypesSizes | packages.NeedSyntax | packages.NeedTypesInfo | packages.NeedDeps,
		Dir:     cfg.Repo,
		Overlay: ov,
		Env:     append(os.Environ(), "GOFLAGS=-mod=mod", "GOPROXY=off", "GOSUMDB=off", "GOTOOLCHAIN=local"),
	}
	// First a cheap pass to discover which repo packages are imported (transitively) so they are loaded from source.
	depCfg := &packages.Config{Mode: packages.NeedName | packages.NeedImports | packages.NeedDeps, Dir: cfg.Repo, Overlay: ov, Env: pcfg.Env}
	dl, err := packages.Load(depCfg, patterns[:len(pkgDirs)]...)
	if err != nil {
		return nil, err
	}
	repoPkgs := map[string]bool{}
	packages.Visit(dl, nil, func(p *packages.Package) {
		if strings.HasPrefix(p.PkgPath, repoModule) {
			repoPkgs[p.PkgPath] = true
		}
	})
	for p := range repoPkgs {
		found := false
		for _, q := range patterns {
			if q == p {
				found = true
			}
		}
		if !found {
			patterns = append(patterns, p)
		}
	}
	pcfg.Mode &^= packages.NeedDeps
	initial, err := packages.Load(pcfg, patterns...)
	if err != nil {
		return nil, err
	}
	nerr := 0
	for _, p := range initial {
		for _, e := range p.Errors {
			fmt.Fprintf(os.Stderr, "load: %s: %v\n", p.PkgPath, e)
			nerr++
		}
	}
	if nerr > 0 {
		return nil, fmt.Errorf("HARNESS-STALE: %d package load errors (harness no longer compiles against the tree?)", nerr)
	}
	prog := ssa.NewProgram(initial[0].Fset, ssa.InstantiateGenerics)
	created := map[*types.Package]*ssa.Package{}
	L := &Loaded{Prog: prog, Pkgs: map[string]*ssa.Package{}, Overlay: ov, PkgDirs: pkgDirs, SrcHash: map[string]string{}, HarnessFiles: hfs}
	for _, p := range initial {
		if p.Types == nil || p.IllTyped {
			return nil, fmt.Errorf("package %s did not type-check", p.PkgPath)
		}
		sp := prog.CreatePackage(p.Types, p.Syntax, p.TypesInfo, true)
		created[p.Types] = sp
		L.Pkgs[p.PkgPath] = sp
		if L.Sizes == nil {
			L.Sizes = p.TypesSizes
		}
		if strings.HasPrefix(p.PkgPath, repoModule) {
			for _, f := range p.CompiledGoFiles {
				if _, isOv := ov[f]; isOv {
					continue
				}
				if b, err := os.ReadFile(f); err == nil {
					rel, _ := filepath.Rel(cfg.Repo, f)
					L.SrcHash[rel] = fmt.Sprintf("%x", sha256.Sum256(b))[:16]
				}
			}
		}
	}
	var visit func(tp *types.Package)
	visit = func(tp *types.Package) {
		for _, imp := range tp.Imports() {
			if created[imp] == nil {
				created[imp] = prog.CreatePackage(imp, nil, nil, true)
				visit(imp)
			}
		}
	}
	for _, p := range initial {
		visit(p.Types)
	}
	for _, p := range initial {
		created[p.Types].Build()
	}
	// harness functions
	for _, pd := range pkgDirs {
		sp := L.Pkgs[repoModule+"/"+pd]
		if sp == nil {
			return nil, fmt.Errorf("package %s not loaded", pd)
		}
		var names []string
		for name, m := range sp.Members {
			if f, ok := m.(*ssa.Function); ok && strings.HasPrefix(name, "Verif") {
				fn := prog.Fset.Position(f.Pos()).Filename
				if strings.HasPrefix(filepath.Base(fn), "zz_verif_h_") {
					names = append(names, name)
				}
			}
		}
		sort.Strings(names)
		for _, n := range names {
			L.Harnesses = append(L.Harnesses, &HarnessFn{Name: n, PkgDir: pd, Fn: sp.Func(n), Pkg: sp})
		}
	}
	return L, nil
}

// workDir is where out/ and evidence/ live.
func (c *Config) workDir() string {
	if c.Scratch != "" {
		return c.Scratch
	}
	return c.Verif
}
