package main

import (
	"encoding/json"
	"fmt"
	"os"
	"os/exec"
	"path/filepath"
	"sort"
	"strings"
	"time"

	"gosmt/interp"
)

type Finding struct {
	ID       string `json:"id,omitempty"`
	Status   string `json:"status"` // known | fixed
	Property string `json:"property"`
	Harness  string `json:"harness,omitempty"`
	Label    string `json:"label,omitempty"`
	Site     string `json:"site,omitempty"`
	What     string `json:"what"`
	Commit   string `json:"commit,omitempty"`
}

type KnownFindings struct {
	Findings []Finding `json:"findings"`
	prop     string
}

func loadKnownFindings(cfg *Config) *KnownFindings {
	kf := &KnownFindings{prop: cfg.ID}
	b, err := os.ReadFile(filepath.Join(cfg.Verif, "known_findings.json"))
	if err != nil {
		return kf
	}
	if err := json.Unmarshal(b, kf); err != nil {
		fmt.Fprintln(os.Stderr, "known_findings.json:", err)
	}
	return kf
}

func (kf *KnownFindings) regionIDs() map[string]bool {
	m := map[string]bool{}
	for _, f := range kf.Findings {
		if f.Status == "known" && f.Property == kf.prop && f.ID != "" {
			m[f.ID] = true
		}
	}
	return m
}

func (kf *KnownFindings) byID(id string) *Finding {
	for k := range kf.Findings {
		if kf.Findings[k].ID == id {
			return &kf.Findings[k]
		}
	}
	return nil
}

func matchesNative(v interp.Violation, outcome string) bool {
	switch v.Kind {
	case "assert":
		return outcome == "assert:"+v.Label
	case "panic":
		return strings.HasPrefix(outcome, "panic:") || strings.HasPrefix(outcome, "crash:")
	case "fatal":
		return strings.HasPrefix(outcome, "crash:") || strings.HasPrefix(outcome, "panic:")
	case "deadlock":
		return outcome == "timeout" || strings.Contains(outcome, "deadlock")
	case "nontermination":
		return outcome == "timeout"
	}
	return false
}

func finish(cfg *Config, L *Loaded, reports []*HarnessReport, kf *KnownFindings, t0 time.Time, outDir string) int {
	to := optsFor(cfg.Tier)
	nb := newNativeBuilder(cfg, L, outDir)
	exit := 0
	var inconclusive []string
	var violLines []string
	knownPrinted := map[string]bool{}
	validated := 0
	mismatches := 0
	nViol := 0
	var knownSeenIDs []string
	expCov := expectedCovers(L)
	caseTimeout := 20000
	// harness files may ask for a longer native timeout: //verif:native-timeout <ms>
	for _, hf := range L.HarnessFiles {
		for _, line := range strings.Split(string(hf.Content), "\n") {
			line = strings.TrimSpace(line)
			if strings.HasPrefix(line, "//verif:native-timeout ") {
				var ms int
				if _, err := fmt.Sscanf(strings.TrimPrefix(line, "//verif:native-timeout "), "%d", &ms); err == nil && ms > caseTimeout {
					caseTimeout = ms
				}
			}
		}
	}

	pkgOf := map[string]string{}
	for _, h := range L.Harnesses {
		pkgOf[h.Name] = h.PkgDir
	}

	type pending struct {
		v    interp.Violation
		c    NativeCase
		kind string // violation | known
	}
	byPkg := map[string][]NativeCase{}
	var pend []pending
	var samplePend []struct {
		s Sample
		c NativeCase
	}
	id := 0
	for _, rep := range reports {
		if len(rep.Incomplete) > 0 {
			for _, s := range rep.Incomplete {
				inconclusive = append(inconclusive, rep.Name+": "+s)
			}
		}
		// vacuity: expected covers
		have := map[string]bool{}
		for _, c := range rep.Covers {
			have[c] = true
		}
		for _, c := range expCov[rep.Name] {
			if !have[c] {
				inconclusive = append(inconclusive, fmt.Sprintf("%s: cover %q not reached (vacuous harness?)", rep.Name, c))
			}
		}
		if rep.Outcomes["ok"] == 0 && len(rep.Violations) == 0 {
			inconclusive = append(inconclusive, rep.Name+": no path completed")
		}
		// dedup violations per (label, known)
		cnt := map[string]int{}
		for _, v := range rep.Violations {
			key := v.Kind + "|" + v.Label + "|" + v.Known
			cnt[key]++
			if cnt[key] > 3 {
				continue
			}
			id++
			c := NativeCase{ID: id, Harness: v.Harness, Values: v.Model, TimeoutMs: caseTimeout, Tier: cfg.Tier}
			k := "violation"
			if v.Known != "" {
				k = "known"
			}
			pend = append(pend, pending{v, c, k})
			byPkg[rep.Pkg] = append(byPkg[rep.Pkg], c)
		}
		for _, s := range rep.Samples {
			id++
			c := NativeCase{ID: id, Harness: s.Harness, Values: s.Model, TimeoutMs: caseTimeout, Tier: cfg.Tier}
			samplePend = append(samplePend, struct {
				s Sample
				c NativeCase
			}{s, c})
			byPkg[rep.Pkg] = append(byPkg[rep.Pkg], c)
		}
	}
	results := map[int]NativeResult{}
	if !cfg.NoNative {
		for pkg, cases := range byPkg {
			r, err := nb.runCases(pkg, cases)
			if err != nil {
				inconclusive = append(inconclusive, err.Error())
				continue
			}
			for k, v := range r {
				results[k] = v
			}
		}
	}
	for _, p := range pend {
		r, ok := results[p.c.ID]
		switch p.kind {
		case "violation":
			replayPath := filepath.Join(cfg.workDir(), "out", cfg.ID, fmt.Sprintf("cex_%d.json", p.c.ID))
			writeJSON(replayPath, map[string]interface{}{"property": cfg.ID, "case": p.c, "violation": p.v, "native": r.Outcome})
			if cfg.NoNative {
				nViol++
				violLines = append(violLines, fmt.Sprintf("VIOLATION property=%s replay=%s  (%s %s/%s %s; native replay skipped)", cfg.ID, replayPath, p.v.Kind, p.v.Harness, p.v.Label, p.v.Detail))
				continue
			}
			if ok && matchesNative(p.v, r.Outcome) {
				nViol++
				violLines = append(violLines, fmt.Sprintf("VIOLATION property=%s replay=%s  (%s %s/%s %s; native: %s)", cfg.ID, replayPath, p.v.Kind, p.v.Harness, p.v.Label, p.v.Detail, r.Outcome))
			} else {
				inconclusive = append(inconclusive, fmt.Sprintf("counterexample for %s/%s (%s: %s) did not reproduce natively (native outcome %q): encoding or stub error; case %s",
					p.v.Harness, p.v.Label, p.v.Kind, p.v.Detail, r.Outcome, replayPath))
			}
		case "known":
			if cfg.NoNative || (ok && matchesNative(p.v, r.Outcome)) {
				if !knownPrinted[p.v.Known] {
					knownPrinted[p.v.Known] = true
					what := p.v.Known
					if f := kf.byID(p.v.Known); f != nil {
						what = f.ID + " " + f.What
					}
					fmt.Printf("KNOWN-FINDING: property=%s %s\n", cfg.ID, what)
					knownSeenIDs = append(knownSeenIDs, p.v.Known)
				}
			}
		}
	}
	for _, sp := range samplePend {
		if cfg.NoNative {
			break
		}
		r, ok := results[sp.c.ID]
		if !ok {
			continue
		}
		good := r.Outcome == "ok" && len(r.Observed) == len(sp.s.Observed)
		if good {
			for k := range r.Observed {
				if r.Observed[k].Name != sp.s.Observed[k].Name || r.Observed[k].Val != sp.s.Observed[k].Val {
					good = false
				}
			}
		}
		if good {
			validated++
		} else {
			mismatches++
			mf := filepath.Join(cfg.workDir(), "out", cfg.ID, fmt.Sprintf("mismatch_%d.json", sp.c.ID))
			writeJSON(mf, map[string]interface{}{"case": sp.c, "symbolic": sp.s.Observed, "native": r})
			inconclusive = append(inconclusive, fmt.Sprintf("encoding mismatch: %s path %s: symbolic run ended ok with %v, native run gave %s %v (see %s)",
				sp.s.Harness, sp.s.Path, sp.s.Observed, r.Outcome, r.Observed, mf))
		}
	}

	// cross-solver re-check of assertion queries (thorough)
	cross := map[string]interface{}{}
	if to.keepScript {
		var scripts []string
		for _, rep := range reports {
			scripts = append(scripts, rep.Scripts...)
		}
		if len(scripts) > 0 {
			for _, sv := range []struct{ name string; args []string }{
				{"z3-new", []string{"-in"}}, {"cvc5", []string{"--incremental", "--lang=smt2"}}} {
				n, bad, err := crossCheck(sv.name, sv.args, scripts)
				cross[sv.name] = map[string]interface{}{"queries": n, "disagreements": bad, "error": fmt.Sprint(err)}
				if bad > 0 {
					inconclusive = append(inconclusive, fmt.Sprintf("cross-solver disagreement: %s answered differently on %d of %d assertion queries", sv.name, bad, n))
				}
			}
		}
	}

	// evidence
	ev := buildEvidence(cfg, L, reports, validated, mismatches, nViol, knownSeenIDs, inconclusive, cross, time.Since(t0).Seconds())
	os.MkdirAll(filepath.Join(cfg.workDir(), "evidence"), 0755)
	if cfg.Only == "" {
		if err := writeJSON(filepath.Join(cfg.workDir(), "evidence", cfg.ID+".json"), ev); err != nil {
			fmt.Fprintln(os.Stderr, "evidence:", err)
		}
	}

	for _, l := range violLines {
		fmt.Println(l)
	}
	if nViol > 0 {
		exit = 1
	} else if len(inconclusive) > 0 {
		exit = 2
	}
	for _, s := range inconclusive {
		fmt.Println("INCONCLUSIVE:", s)
	}
	if exit == 0 {
		np, na := 0, 0
		for _, r := range reports {
			np += r.Paths
			na += r.Asserts
		}
		fmt.Printf("OK property=%s tier=%s harnesses=%d paths=%d assertions_discharged=%d validated_natively=%d wall=%.1fs\n",
			cfg.ID, cfg.Tier, len(reports), np, na, validated, time.Since(t0).Seconds())
		// clean scratch
		os.RemoveAll(outDir)
	} else {
		// keep counterexamples, drop binaries and overlays
		ents, _ := os.ReadDir(outDir)
		for _, e := range ents {
			if strings.HasSuffix(e.Name(), ".test") || e.Name() == "overlay" {
				os.RemoveAll(filepath.Join(outDir, e.Name()))
			}
		}
	}
	return exit
}

func crossCheck(solver string, args []string, scripts []string) (int, int, error) {
	var sb strings.Builder
	for _, s := range scripts {
		sb.WriteString("(reset)\n")
		sb.WriteString(s)
	}
	cmd := exec.Command(solver, args...)
	cmd.Stdin = strings.NewReader(sb.String())
	out, err := cmd.Output()
	n := 0
	bad := 0
	for _, line := range strings.Split(string(out), "\n") {
		line = strings.TrimSpace(line)
		switch line {
		case "unsat":
			n++
		case "sat", "unknown":
			n++
			bad++
		}
	}
	if n != len(scripts) {
		bad += len(scripts) - n
	}
	return len(scripts), bad, err
}

func buildEvidence(cfg *Config, L *Loaded, reports []*HarnessReport, validated, mismatches, nViol int, known []string, inconclusive []string, cross map[string]interface{}, wall float64) map[string]interface{} {
	states, transitions := 0, 0
	var q interp.SolverStats
	var samples []interface{}
	bounds := map[string]interface{}{}
	var harn []interface{}
	asserts := 0
	for _, r := range reports {
		states += r.Paths
		transitions += r.Decisions
		asserts += r.Asserts
		q.Feasibility += r.Stats.Feasibility
		q.Assertion += r.Stats.Assertion
		q.Sat += r.Stats.Sat
		q.Unsat += r.Stats.Unsat
		q.Unknown += r.Stats.Unknown
		q.Time += r.Stats.Time
		for k, s := range r.Samples {
			if k < 3 {
				samples = append(samples, s)
			}
		}
		for k, b := range r.Bounds {
			bounds[r.Name+"."+k] = b
		}
		harn = append(harn, r)
	}
	if len(samples) == 0 {
		samples = append(samples, map[string]string{"note": "no completed path produced a model"})
	}
	if transitions == 0 {
		transitions = states
	}
	var funcs, deps, stubs []string
	for f := range allFuncs {
		if strings.HasPrefix(f, "dep:") {
			deps = append(deps, strings.TrimPrefix(f, "dep:"))
		} else {
			funcs = append(funcs, f)
		}
	}
	for s := range allStubs {
		stubs = append(stubs, s)
	}
	sort.Strings(funcs)
	sort.Strings(deps)
	sort.Strings(stubs)
	seed := 0
	fmt.Sscan(os.Getenv("VERIF_SEED"), &seed)
	tier := cfg.Tier
	if tier != "thorough" {
		tier = "quick"
	}
	var assumptions []string
	for _, hf := range L.HarnessFiles {
		for _, line := range strings.Split(string(hf.Content), "\n") {
			line = strings.TrimSpace(line)
			if strings.HasPrefix(line, "//verif:assume ") {
				assumptions = append(assumptions, strings.TrimPrefix(line, "//verif:assume "))
			}
		}
	}
	assumptions = append(assumptions,
		"go/ssa lowering of /repo's current working tree; the gosmt interpreter and its term builder (cross-validated natively on sampled paths each run)",
		"one deterministic cooperative schedule per pipeline; map iteration in insertion order; tickers/timeouts never fire",
		"stub contracts listed under coverage.stubs_used; solver z3 4.8.12 (thorough: re-checked by z3 5.1 and cvc5)")
	return map[string]interface{}{
		"property_id": cfg.ID,
		"tier":        tier,
		"seed":        seed,
		"level":       "model_checking",
		"coverage": map[string]interface{}{
			"states":                        states,
			"transitions":                   transitions,
			"traces_validated_against_impl": validated,
			"samples":                       samples,
			"exhaustive":                    len(inconclusive) == 0,
			"explanation":                   "bounded symbolic execution of the go/ssa form of the listed functions; states = program paths explored to completion, transitions = symbolic branch/value decisions (both sides solver-feasible); every assertion decided by the SMT solver over all inputs within the stated bounds",
			"harnesses":                     harn,
			"functions_encoded":             funcs,
			"dependency_functions_executed": len(deps),
			"source_files":                  L.SrcHash,
			"bounds":                        bounds,
			"queries": map[string]interface{}{"feasibility": q.Feasibility, "assertion": q.Assertion, "sat": q.Sat, "unsat": q.Unsat, "unknown": q.Unknown},
			"assertions_discharged": asserts,
			"solver_time_s":         q.Time.Seconds(),
			"stubs_used":            stubs,
			"encoding_mismatches":   mismatches,
			"cross_solver":          cross,
			"known_findings_seen":   known,
			"inconclusive":          inconclusive,
		},
		"assumptions": assumptions,
		"wall_s":      wall,
		"violations":  nViol,
	}
}

func replayFile(cfg *Config, L *Loaded, kf *KnownFindings) int {
	b, err := os.ReadFile(cfg.Replay)
	if err != nil {
		fmt.Fprintln(os.Stderr, err)
		return 2
	}
	var doc struct {
		Case      NativeCase       `json:"case"`
		Violation interp.Violation `json:"violation"`
	}
	if err := json.Unmarshal(b, &doc); err != nil {
		fmt.Fprintln(os.Stderr, err)
		return 2
	}
	outDir := filepath.Join(cfg.workDir(), "out", cfg.ID+"_replay")
	os.MkdirAll(outDir, 0755)
	defer os.RemoveAll(outDir)
	nb := newNativeBuilder(cfg, L, outDir)
	pkg := ""
	for _, h := range L.Harnesses {
		if h.Name == doc.Case.Harness {
			pkg = h.PkgDir
		}
	}
	if pkg == "" {
		fmt.Fprintln(os.Stderr, "harness not found:", doc.Case.Harness)
		return 2
	}
	r, err := nb.runCases(pkg, []NativeCase{doc.Case})
	if err != nil {
		fmt.Fprintln(os.Stderr, err)
		return 2
	}
	res := r[doc.Case.ID]
	fmt.Printf("native outcome: %s\n%s\n", res.Outcome, res.Raw)
	if matchesNative(doc.Violation, res.Outcome) {
		fmt.Printf("VIOLATION property=%s replay=%s\n", cfg.ID, cfg.Replay)
		return 1
	}
	return 0
}
