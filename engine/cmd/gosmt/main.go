// gosmt: bounded symbolic execution of Go SSA with an SMT solver.
//
// usage: gosmt -id C22 [-tier quick|thorough] [-harness Name] [-replay file]
package main

import (
	"flag"
	"fmt"
	"os"
)

func main() {
	var cfg Config
	flag.StringVar(&cfg.ID, "id", "", "property id (directory under harness/)")
	flag.StringVar(&cfg.Tier, "tier", envOr("VERIF_TIER", "quick"), "quick|thorough")
	flag.StringVar(&cfg.Only, "harness", "", "run only this harness function")
	flag.StringVar(&cfg.Repo, "repo", "/repo", "repository under test")
	flag.StringVar(&cfg.Verif, "verif", "/verif", "verification directory")
	flag.StringVar(&cfg.Replay, "replay", "", "replay a counterexample file natively")
	flag.IntVar(&cfg.Workers, "workers", 16, "parallel workers")
	flag.BoolVar(&cfg.Trace, "trace", false, "trace instructions")
	flag.BoolVar(&cfg.NoNative, "no-native", false, "skip native replay/validation (development)")
	flag.BoolVar(&cfg.Verbose, "v", false, "verbose")
	flag.StringVar(&cfg.Scratch, "scratch", os.Getenv("VERIF_SCRATCH"), "write out/ and evidence/ under this directory instead of -verif")
	flag.IntVar(&cfg.MaxPaths, "max-paths", 0, "stop after this many paths (development)")
	flag.Parse()
	if cfg.ID == "" {
		fmt.Fprintln(os.Stderr, "gosmt: -id required")
		os.Exit(2)
	}
	os.Exit(run(&cfg))
}

func envOr(k, d string) string {
	if v := os.Getenv(k); v != "" {
		return v
	}
	return d
}
