package main

import (
	"encoding/json"
	"fmt"
	"os"
	"path/filepath"
	"sort"
	"strings"
	"sync"
	"time"

	"golang.org/x/tools/go/ssa"

	"gosmt/interp"
)

type HarnessReport struct {
	Name        string            `json:"name"`
	Pkg         string            `json:"pkg"`
	Paths       int               `json:"paths"`
	Outcomes    map[string]int    `json:"outcomes"`
	Decisions   int               `json:"decisions"`
	Instrs      int64             `json:"instructions"`
	Asserts     int               `json:"assertions_discharged"`
	Covers      []string          `json:"covers_reached"`
	Violations  []interp.Violation `json:"-"`
	Known       []KnownSeen       `json:"known_findings_seen,omitempty"`
	Incomplete  []string          `json:"incomplete,omitempty"`
	Stats       interp.SolverStats `json:"-"`
	Samples     []Sample          `json:"-"`
	Scripts     []string          `json:"-"`
	WallS       float64           `json:"wall_s"`
	Bounds      map[string][2]int64 `json:"bounds"`
}

type KnownSeen struct {
	ID   string `json:"id"`
	What string `json:"what"`
}

type Sample struct {
	Harness  string               `json:"harness"`
	Path     string               `json:"path"`
	Model    map[string]uint64    `json:"model"`
	Order    []string             `json:"-"`
	Observed []interp.ObservedVal `json:"observed,omitempty"`
}

type tierOpts struct {
	budget     int64
	unwind     int
	maxPaths   int
	samples    int
	timeoutMs  int
	keepScript bool
}

func optsFor(tier string) tierOpts {
	if tier == "thorough" {
		return tierOpts{budget: 50_000_000, unwind: 400, maxPaths: 2_000_000, samples: 96, timeoutMs: 120_000, keepScript: true}
	}
	return tierOpts{budget: 20_000_000, unwind: 300, maxPaths: 400_000, samples: 24, timeoutMs: 20_000}
}

func explore(cfg *Config, P *interp.Program, L *Loaded, h *HarnessFn, roots []*ssa.Package, to tierOpts, kf *KnownFindings) *HarnessReport {
	start := time.Now()
	rep := &HarnessReport{Name: h.Name, Pkg: h.PkgDir, Outcomes: map[string]int{}, Bounds: map[string][2]int64{}}
	var mu sync.Mutex
	cond := sync.NewCond(&mu)
	work := [][]interp.Decision{nil}
	active := 0
	covers := map[string]bool{}
	funcs := allFuncs
	stubs := allStubs
	stop := false
	maxPaths := to.maxPaths
	if cfg.MaxPaths > 0 {
		maxPaths = cfg.MaxPaths
	}
	nworkers := cfg.Workers
	var wg sync.WaitGroup
	for w := 0; w < nworkers; w++ {
		wg.Add(1)
		go func(w int) {
			defer wg.Done()
			solver, err := interp.NewSolver(to.timeoutMs)
			if err != nil {
				fmt.Fprintln(os.Stderr, "solver:", err)
				return
			}
			defer solver.Close()
			for {
				mu.Lock()
				for len(work) == 0 && active > 0 && !stop {
					cond.Wait()
				}
				if stop || (len(work) == 0 && active == 0) {
					mu.Unlock()
					cond.Broadcast()
					return
				}
				prefix := work[len(work)-1]
				work = work[:len(work)-1]
				active++
				n := rep.Paths
				rep.Paths++
				mu.Unlock()

				wantModel := n < to.samples/2 || (n%97 == 0)
				res := P.RunPath(h.Fn, roots, prefix, solver, interp.PathOpts{
					Budget: to.budget, Unwind: to.unwind, KeepScripts: to.keepScript, WantModel: wantModel, Known: kf.regionIDs()})

				mu.Lock()
				active--
				rep.Outcomes[res.Outcome]++
				rep.Decisions += res.Decisions
				rep.Instrs += res.Instrs
				rep.Asserts += res.Asserts
				for _, c := range res.Covers {
					covers[c] = true
				}
				for f := range res.Funcs {
					funcs[f] = true
				}
				for f := range res.Stubs {
					stubs[f] = true
				}
				for k, b := range res.Bounds {
					rep.Bounds[k] = b
				}
				rep.Stats.Feasibility += res.Stats.Feasibility
				rep.Stats.Assertion += res.Stats.Assertion
				rep.Stats.Sat += res.Stats.Sat
				rep.Stats.Unsat += res.Stats.Unsat
				rep.Stats.Unknown += res.Stats.Unknown
				rep.Stats.Time += res.Stats.Time
				if len(rep.Violations) < 50 {
					rep.Violations = append(rep.Violations, res.Violations...)
				}
				for _, k := range res.KnownSeen {
					rep.Violations = append(rep.Violations, k)
				}
				if len(rep.Scripts) < 4000 {
					rep.Scripts = append(rep.Scripts, res.Scripts...)
				}
				switch res.Outcome {
				case "ok", "infeasible", "violated":
				case "panic", "deadlock", "fatal":
				case "budget":
					if !res.TermClaim {
						rep.Incomplete = appendUniq(rep.Incomplete, "budget: "+res.Detail)
					}
				default:
					rep.Incomplete = appendUniq(rep.Incomplete, res.Outcome+": "+res.Detail)
					if res.Outcome == "unsupported" || res.Outcome == "nondet-mismatch" {
						stop = true
					}
				}
				if res.Outcome == "ok" && res.Model != nil && len(rep.Samples) < to.samples {
					rep.Samples = append(rep.Samples, Sample{Harness: h.Name, Path: pathStr(res.Trace), Model: res.Model, Order: res.Order, Observed: res.Observed})
				}
				if cfg.Verbose {
					fmt.Fprintf(os.Stderr, "[%s] path %d: %s %s (dec=%d instr=%d q=%d) %s\n", h.Name, n, res.Outcome, res.Detail, res.Decisions, res.Instrs, res.Stats.Feasibility+res.Stats.Assertion, pathStr(res.Trace))
				}
				work = append(work, res.Siblings...)
				if rep.Paths >= maxPaths {
					if len(work) > 0 || active > 0 {
						rep.Incomplete = appendUniq(rep.Incomplete, fmt.Sprintf("path limit %d reached", maxPaths))
					}
					stop = true
				}
				if len(rep.Incomplete) > 20 {
					stop = true
				}
				mu.Unlock()
				cond.Broadcast()
			}
		}(w)
	}
	wg.Wait()
	for c := range covers {
		rep.Covers = append(rep.Covers, c)
	}
	sort.Strings(rep.Covers)
	rep.WallS = time.Since(start).Seconds()
	return rep
}

var allFuncs = map[string]bool{}
var allStubs = map[string]bool{}

func appendUniq(s []string, x string) []string {
	if len(x) > 300 {
		x = x[:300]
	}
	for _, y := range s {
		if y == x {
			return s
		}
	}
	return append(s, x)
}

func pathStr(tr []interp.Decision) string {
	var sb strings.Builder
	for _, d := range tr {
		switch {
		case d.IsVal && d.Taken:
			fmt.Fprintf(&sb, "[=%d]", d.Val)
		case d.IsVal:
			fmt.Fprintf(&sb, "[!%d]", d.Val)
		case d.Taken:
			sb.WriteByte('T')
		default:
			sb.WriteByte('F')
		}
	}
	s := sb.String()
	if len(s) > 200 {
		s = s[:200] + "…"
	}
	return s
}

// expected covers are declared in harness source as: //verif:cover <Harness> <label>
func expectedCovers(L *Loaded) map[string][]string {
	out := map[string][]string{}
	for _, hf := range L.HarnessFiles {
		for _, line := range strings.Split(string(hf.Content), "\n") {
			line = strings.TrimSpace(line)
			if strings.HasPrefix(line, "//verif:cover ") {
				f := strings.Fields(strings.TrimPrefix(line, "//verif:cover "))
				if len(f) >= 2 {
					out[f[0]] = append(out[f[0]], f[1:]...)
				}
			}
		}
	}
	return out
}

func run(cfg *Config) int {
	t0 := time.Now()
	outDir := filepath.Join(cfg.workDir(), "out", cfg.ID)
	os.RemoveAll(outDir)
	os.MkdirAll(outDir, 0755)
	L, err := load(cfg)
	if err != nil {
		fmt.Fprintln(os.Stderr, "gosmt:", err)
		fmt.Println("INCONCLUSIVE:", err)
		return 2
	}
	loadS := time.Since(t0).Seconds()
	P := interp.NewProgram(L.Prog, repoModule, cfg.Repo, L.Sizes)
	P.Trace = cfg.Trace
	P.Tier = cfg.Tier
	for _, hf := range L.HarnessFiles {
		for _, st := range hf.Stubs {
			if err := P.AddStub(repoModule+"/"+hf.PkgDir, st[0], st[1]); err != nil {
				fmt.Fprintln(os.Stderr, "gosmt:", err)
				fmt.Println("INCONCLUSIVE:", err)
				return 2
			}
		}
	}
	var roots []*ssa.Package
	seen := map[*ssa.Package]bool{}
	for _, h := range L.Harnesses {
		if !seen[h.Pkg] {
			seen[h.Pkg] = true
			roots = append(roots, h.Pkg)
		}
	}
	if err := P.InitShared(roots); err != nil {
		fmt.Fprintln(os.Stderr, "gosmt:", err)
		fmt.Println("INCONCLUSIVE:", err)
		return 2
	}
	if cfg.Verbose {
		fmt.Fprintf(os.Stderr, "loaded in %.1fs, init done in %.1fs, %d harnesses\n", loadS, time.Since(t0).Seconds(), len(L.Harnesses))
	}
	kf := loadKnownFindings(cfg)
	if cfg.Replay != "" {
		return replayFile(cfg, L, kf)
	}
	to := optsFor(cfg.Tier)
	var reports []*HarnessReport
	for _, h := range L.Harnesses {
		if cfg.Only != "" && h.Name != cfg.Only {
			continue
		}
		rep := explore(cfg, P, L, h, []*ssa.Package{h.Pkg}, to, kf)
		reports = append(reports, rep)
		fmt.Fprintf(os.Stderr, "%s: %d paths %v, %d decisions, %d assertions discharged, %d violations, %.1fs (solver %.1fs)\n",
			h.Name, rep.Paths, rep.Outcomes, rep.Decisions, rep.Asserts, len(rep.Violations), rep.WallS, rep.Stats.Time.Seconds())
	}
	return finish(cfg, L, reports, kf, t0, outDir)
}

func writeJSON(path string, v interface{}) error {
	b, err := json.MarshalIndent(v, "", " ")
	if err != nil {
		return err
	}
	return os.WriteFile(path, b, 0644)
}
