package main

// Native replay: the same harness compiled with the real toolchain
// (go test -c -overlay), one process per case.

import (
	"bytes"
	"encoding/json"
	"fmt"
	"os"
	"os/exec"
	"path/filepath"
	"sort"
	"strings"
	"sync"
	"time"
)

type NativeCase struct {
	ID        int               `json:"id"`
	Harness   string            `json:"harness"`
	Values    map[string]uint64 `json:"values"`
	TimeoutMs int               `json:"timeout_ms"`
	Tier      string            `json:"tier"`
}

type NativeObs struct {
	Name string `json:"name"`
	Val  string `json:"val"`
}

type NativeResult struct {
	ID       int         `json:"id"`
	Outcome  string      `json:"outcome"`
	Observed []NativeObs `json:"observed"`
	Raw      string      `json:"-"`
}

type nativeBuilder struct {
	cfg    *Config
	L      *Loaded
	outDir string
	mu     sync.Mutex
	bins   map[string]string // pkgDir -> test binary
	errs   map[string]error
}

func newNativeBuilder(cfg *Config, L *Loaded, outDir string) *nativeBuilder {
	return &nativeBuilder{cfg: cfg, L: L, outDir: outDir, bins: map[string]string{}, errs: map[string]error{}}
}

func goEnv() []string {
	return append(os.Environ(), "GOFLAGS=-mod=mod", "GOPROXY=off", "GOSUMDB=off", "GOTOOLCHAIN=local")
}

// build compiles the test binary of pkgDir with the harness overlay.
func (nb *nativeBuilder) build(pkgDir string) (string, error) {
	nb.mu.Lock()
	defer nb.mu.Unlock()
	if b, ok := nb.bins[pkgDir]; ok {
		return b, nb.errs[pkgDir]
	}
	ovDir := filepath.Join(nb.outDir, "overlay", strings.ReplaceAll(pkgDir, "/", "_"))
	os.MkdirAll(ovDir, 0755)
	repl := map[string]string{}
	n := 0
	for path, content := range nb.L.Overlay {
		n++
		real := filepath.Join(ovDir, fmt.Sprintf("f%d_%s", n, filepath.Base(path)))
		if err := os.WriteFile(real, content, 0644); err != nil {
			return "", err
		}
		repl[path] = real
	}
	// blank the package's own tests (some import packages that do not exist offline)
	ents, _ := os.ReadDir(filepath.Join(nb.cfg.Repo, pkgDir))
	for _, e := range ents {
		if strings.HasSuffix(e.Name(), "_test.go") {
			repl[filepath.Join(nb.cfg.Repo, pkgDir, e.Name())] = ""
		}
	}
	// the replay test file
	pkgName, err := pkgNameOf(nb.cfg.Repo, pkgDir)
	if err != nil {
		return "", err
	}
	var names []string
	for _, h := range nb.L.Harnesses {
		if h.PkgDir == pkgDir {
			names = append(names, h.Name)
		}
	}
	sort.Strings(names)
	var sb strings.Builder
	fmt.Fprintf(&sb, "package %s\n\nimport \"testing\"\n\nfunc TestVerifReplay(t *testing.T) {\n\tvReplayMain(map[string]func(){\n", pkgName)
	for _, nme := range names {
		fmt.Fprintf(&sb, "\t\t%q: %s,\n", nme, nme)
	}
	sb.WriteString("\t})\n}\n")
	testReal := filepath.Join(ovDir, "zz_verif_replay_test.go")
	os.WriteFile(testReal, []byte(sb.String()), 0644)
	repl[filepath.Join(nb.cfg.Repo, pkgDir, "zz_verif_replay_test.go")] = testReal
	ovJSON := filepath.Join(ovDir, "overlay.json")
	writeJSON(ovJSON, map[string]interface{}{"Replace": repl})
	bin := filepath.Join(nb.outDir, strings.ReplaceAll(pkgDir, "/", "_")+".test")
	cmd := exec.Command("go", "test", "-c", "-vet=off", "-overlay", ovJSON, "-o", bin, "./"+pkgDir)
	cmd.Dir = nb.cfg.Repo
	cmd.Env = goEnv()
	out, err := cmd.CombinedOutput()
	if err != nil {
		err = fmt.Errorf("native build of %s failed: %v\n%s", pkgDir, err, out)
	}
	nb.bins[pkgDir] = bin
	nb.errs[pkgDir] = err
	return bin, err
}

// runCases runs cases natively (in parallel), one process each.
func (nb *nativeBuilder) runCases(pkgDir string, cases []NativeCase) (map[int]NativeResult, error) {
	bin, err := nb.build(pkgDir)
	if err != nil {
		return nil, err
	}
	res := make(map[int]NativeResult)
	var mu sync.Mutex
	sem := make(chan struct{}, 8)
	var wg sync.WaitGroup
	for _, c := range cases {
		wg.Add(1)
		sem <- struct{}{}
		go func(c NativeCase) {
			defer wg.Done()
			defer func() { <-sem }()
			cf := filepath.Join(nb.outDir, fmt.Sprintf("case_%s_%d.json", c.Harness, c.ID))
			writeJSON(cf, c)
			r := runOneCase(bin, filepath.Join(nb.cfg.Repo, pkgDir), cf, c)
			mu.Lock()
			res[c.ID] = r
			mu.Unlock()
		}(c)
	}
	wg.Wait()
	// a native timeout on a loaded machine is not evidence: re-run timed-out cases
	// one at a time with three times the allowance before believing them
	var slow []NativeCase
	for _, c := range cases {
		if res[c.ID].Outcome == "timeout" {
			slow = append(slow, c)
		}
	}
	if len(slow) <= 8 {
		for _, c := range slow {
			c2 := c
			c2.TimeoutMs = c.TimeoutMs * 3
			cf := filepath.Join(nb.outDir, fmt.Sprintf("case_%s_%d.json", c.Harness, c.ID))
			writeJSON(cf, c2)
			res[c.ID] = runOneCase(bin, filepath.Join(nb.cfg.Repo, pkgDir), cf, c2)
		}
	}
	return res, nil
}

func runOneCase(bin, dir, caseFile string, c NativeCase) NativeResult {
	cmd := exec.Command(bin, "-test.run", "^TestVerifReplay$", "-test.timeout", "0")
	cmd.Dir = dir
	cmd.Env = append(os.Environ(), "VERIF_CASE="+caseFile)
	var buf bytes.Buffer
	cmd.Stdout = &buf
	cmd.Stderr = &buf
	done := make(chan error, 1)
	if err := cmd.Start(); err != nil {
		return NativeResult{ID: c.ID, Outcome: "error:" + err.Error()}
	}
	go func() { done <- cmd.Wait() }()
	limit := time.Duration(c.TimeoutMs)*time.Millisecond + 15*time.Second
	select {
	case <-done:
	case <-time.After(limit):
		cmd.Process.Kill()
		<-done
		return NativeResult{ID: c.ID, Outcome: "timeout", Raw: buf.String()}
	}
	out := buf.String()
	for _, line := range strings.Split(out, "\n") {
		if strings.HasPrefix(line, "VERIF-RESULT ") {
			var r NativeResult
			if err := json.Unmarshal([]byte(strings.TrimPrefix(line, "VERIF-RESULT ")), &r); err == nil {
				r.Raw = out
				return r
			}
		}
	}
	// process died without a result: fatal error / os.Exit / crash in another goroutine
	oc := "crash:"
	for _, line := range strings.Split(out, "\n") {
		if strings.HasPrefix(line, "fatal error:") || strings.HasPrefix(line, "panic:") {
			oc += strings.TrimSpace(line)
			break
		}
	}
	if len(out) > 2000 {
		out = out[:2000]
	}
	return NativeResult{ID: c.ID, Outcome: oc, Raw: out}
}
