//verif:pkg pkg/storage/localfs
//verif:use aferostub
//verif:assume the local file system is an in-memory model with POSIX directory semantics (afero.Fs stub: sorted directory listings, O_EXCL honoured, a path is a file or a directory); afero.Walk runs from source; atomicity of O_EXCL between processes, fsync and real directory iteration are the kernel's and are outside this check
//verif:assume key universe for listings: a solver-chosen subset of {a/b/x, a/b/y/z, a/bc/x, a/b-c/x, a-b/x, ab, c} (components that prefix one another, bytes below '/'), prefixes {"", a, a/, a/b, a/b/, a-b/, zz/}, delimiter "" or "/", every page size 1..5, pages followed by token to the end
//verif:cover VerifC16List delimiter full-scan-multi-page prefix-with-slash
//verif:assume operation histories: programs of 3 (thorough 4) operations out of {put, create-if-absent, delete, get, has} over the keys {a/k, ab/k, a/kk, k} (path components that are prefixes of one another) with symbolic one-byte contents, checked step by step against a map model; afterwards Keys and a paged prefix listing (symbolic page size) against the model
//verif:cover VerifC16Programs overwritten refused deleted-then-recreated
//verif:assume file system faults: the file system accepts only the first k (0..3) bytes of a 4-byte object and then fails (disk full), or fails the close of the file; both source kinds (plain reader, WriterTo)
//verif:cover VerifC16FsFaults short-write close-fails
//verif:cover VerifC16Objects exclusive-refused overwrite deleted put-error-reported source-returns-data-with-eof
//verif:cover VerifC16ExclusiveRace interleaved
package localfs

import (
	"bytes"
	"context"
	"errors"
	"io"
	"os"
	"sort"
	"strings"

	"github.com/oneconcern/datamon/pkg/storage"
	"go.uber.org/zap"
)

func vNewStore(fs *vFs) storage.Store {
	return New(fs, WithLogger(zap.NewNop()), WithRetry(false))
}

// VerifC16List: prefix listings return exactly the keys under the prefix (or the immediate sub-prefixes with a
// delimiter), each once, in lexicographic order, for any page size.
func VerifC16List() {
	vBudget(100000000)
	vUnwind(100000)
	fs := newVFs()
	st := vNewStore(fs)
	ctx := context.Background()
	universe := []string{"a/b/x", "a/b/y/z", "a/bc/x", "a/b-c/x", "a-b/x", "ab", "c"}
	var keys []string
	for _, k := range universe {
		if vChoose("has", 2) == 1 {
			vAssert(st.Put(ctx, k, bytes.NewReader([]byte(k)), storage.NoOverWrite) == nil, "put")
			keys = append(keys, k)
		}
	}
	prefixes := []string{"", "a", "a/", "a/b", "a/b/", "a-b/", "zz/"}
	prefix := prefixes[vChoose("prefix", len(prefixes))]
	if strings.HasSuffix(prefix, "/") {
		vCover("prefix-with-slash")
	}
	delim := ""
	if vChoose("delimiter", 2) == 1 {
		delim = "/"
		vCover("delimiter")
	}
	c := vInt("pageSize", 1, 5) // symbolic page size
	// reference: the key/value model
	var want []string
	for _, k := range keys {
		if !strings.HasPrefix(k, prefix) {
			continue
		}
		item := k
		if delim != "" {
			if i := strings.Index(k[len(prefix):], delim); i >= 0 {
				item = k[:len(prefix)+i+1]
			}
		}
		dup := false
		for _, w := range want {
			dup = dup || w == item
		}
		if !dup {
			want = append(want, item)
		}
	}
	sort.Strings(want)
	var got []string
	token := ""
	pages := 0
	for {
		page, next, err := st.KeysPrefix(ctx, token, prefix, delim, c)
		vAssert(err == nil, "listing-succeeds")
		vAssert(len(page) <= c, "page-not-larger-than-asked")
		got = append(got, page...)
		pages++
		if next == "" || pages > len(universe)+2 {
			break
		}
		token = next
	}
	if pages > 1 {
		vCover("full-scan-multi-page")
	}
	vAssert(len(got) == len(want), "listing-returns-exactly-the-keys-under-the-prefix")
	for i := range got {
		if i < len(want) {
			vAssert(got[i] == want[i], "listing-in-lexicographic-order")
		}
	}
}

type vFailingSource struct {
	b      []byte
	failAt int // WriteTo / Read fail after this many bytes (-1: never)
	pos    int
	asWT   bool
	eofWithData bool // the last bytes are returned together with io.EOF (as gzip.Reader or iotest.DataErrReader do)
}

func (s *vFailingSource) Read(p []byte) (int, error) {
	if s.failAt >= 0 && s.pos >= s.failAt {
		return 0, errors.New("source failed")
	}
	if s.pos >= len(s.b) {
		return 0, io.EOF
	}
	n := len(s.b) - s.pos
	if n > len(p) {
		n = len(p)
	}
	if s.failAt >= 0 && s.pos+n > s.failAt {
		n = s.failAt - s.pos
	}
	copy(p, s.b[s.pos:s.pos+n])
	s.pos += n
	if s.eofWithData && s.pos == len(s.b) && !(s.failAt >= 0 && s.failAt <= len(s.b)) {
		return n, io.EOF
	}
	return n, nil
}

type vFailingWT struct{ vFailingSource }

func (s *vFailingWT) WriteTo(w io.Writer) (int64, error) {
	n := len(s.b)
	var err error
	if s.failAt >= 0 && s.failAt < n {
		n = s.failAt
		err = errors.New("source failed (e.g. hash verification)")
	}
	k, e := w.Write(s.b[:n])
	if e != nil {
		return int64(k), e
	}
	return int64(k), err
}

// VerifC16Objects: create-if-absent, overwrite, read-back, delete, Has; and a write that fails is reported.
func VerifC16Objects() {
	vBudget(100000000)
	fs := newVFs()
	st := vNewStore(fs)
	ctx := context.Background()
	key := []string{"k", "d/k"}[vChoose("key", 2)]
	first := vBytes("first", 2)
	second := vBytes("second", 3)
	vAssert(st.Put(ctx, key, bytes.NewReader(first), storage.NoOverWrite) == nil, "create")
	excl := vChoose("secondExclusive", 2) == 1
	err := st.Put(ctx, key, bytes.NewReader(second), excl)
	rd, gerr := st.Get(ctx, key)
	vAssert(gerr == nil, "get")
	got, _ := io.ReadAll(rd)
	if excl {
		vCover("exclusive-refused")
		vAssert(err != nil, "create-if-absent-refuses-an-existing-key")
		vAssert(vBytesEqual(got, first), "refused-write-leaves-the-first-writers-bytes")
	} else {
		vCover("overwrite")
		vAssert(err == nil, "overwrite-succeeds")
		vAssert(vBytesEqual(got, second), "read-returns-the-last-written-bytes")
	}
	for _, o := range fs.opens {
		if o.Flag&os.O_CREATE != 0 {
			_ = o
		}
	}
	has, herr := st.Has(ctx, key)
	vAssert(herr == nil && has, "has-existing-key")
	if key == "d/k" {
		has, herr = st.Has(ctx, "d")
		vAssert(herr == nil && !has, "a-directory-is-not-a-key")
	}
	// a write whose source fails part-way must be reported
	failKey := "f"
	src := &vFailingWT{vFailingSource{b: []byte("0123"), failAt: vChoose("failAt", 5) - 1}}
	var perr error
	switch vChoose("sourceKind", 3) {
	case 1:
		perr = st.Put(ctx, failKey, src, storage.NoOverWrite)
	case 2:
		src.eofWithData = true
		vCover("source-returns-data-with-eof")
		perr = st.Put(ctx, failKey, &src.vFailingSource, storage.NoOverWrite)
	default:
		perr = st.Put(ctx, failKey, &src.vFailingSource, storage.NoOverWrite)
	}
	if src.failAt >= 0 && src.failAt < 4 {
		vCover("put-error-reported")
		vAssert(perr != nil, "failed-write-is-reported")
	} else {
		vAssert(perr == nil, "complete-write-succeeds")
		frd, ferr := st.Get(ctx, failKey)
		vAssert(ferr == nil, "get")
		fgot, _ := io.ReadAll(frd)
		vAssert(string(fgot) == "0123", "successful-write-stores-every-byte-of-the-source")
	}
	// deleting a name that is not a key but a prefix of keys removes none of them
	vAssert(st.Put(ctx, "p/q/one", bytes.NewReader([]byte("1")), storage.NoOverWrite) == nil && st.Put(ctx, "p/q/two", bytes.NewReader([]byte("2")), storage.NoOverWrite) == nil, "put-under-prefix")
	_ = st.Delete(ctx, "p/q")
	h1, _ := st.Has(ctx, "p/q/one")
	h2, _ := st.Has(ctx, "p/q/two")
	vAssert(h1 && h2, "delete-of-a-prefix-removes-no-key")
	// delete
	vAssert(st.Delete(ctx, key) == nil, "delete")
	has, herr = st.Has(ctx, key)
	vAssert(herr == nil && !has, "deleted-key-is-gone")
	vCover("deleted")
	_, gerr = st.Get(ctx, key)
	vAssert(gerr != nil, "get-of-deleted-key-fails")
}

// VerifC16ExclusiveRace: of two concurrent create-if-absent writers of one key exactly one succeeds and its bytes
// remain; every interleaving at file-system-call granularity (a preemption point before each OpenFile).
func VerifC16ExclusiveRace() {
	vBudget(100000000)
	fs := newVFs()
	st := vNewStore(fs)
	ctx := context.Background()
	switched := 0
	fs.beforeOpen = func(name string, flag int) {
		if vChoose("switch", 2) == 1 {
			switched++
			vYield()
		}
	}
	errs := make([]error, 2)
	w := func(k int) func() {
		return func() { errs[k] = st.Put(ctx, "k", bytes.NewReader([]byte{byte('A' + k)}), storage.NoOverWrite) }
	}
	vTasks(w(0), w(1))
	fs.beforeOpen = nil
	if switched > 0 {
		vCover("interleaved")
	}
	ok := 0
	winner := -1
	for k, e := range errs {
		if e == nil {
			ok++
			winner = k
		}
	}
	vAssert(ok == 1, "exactly-one-concurrent-exclusive-writer-succeeds")
	rd, err := st.Get(ctx, "k")
	vAssert(err == nil, "get")
	got, _ := io.ReadAll(rd)
	vAssert(len(got) == 1 && winner >= 0 && got[0] == byte('A'+winner), "the-winners-bytes-remain")
}

// VerifC16Programs: operation histories against a key/value map model.
func VerifC16Programs() {
	vBudget(300000000)
	vUnwind(100000)
	fs := newVFs()
	st := vNewStore(fs)
	ctx := context.Background()
	keys := []string{"a/k", "ab/k", "a/kk", "k"}
	model := map[string][]byte{}
	deleted := map[string]bool{}
	steps := 3
	if vThorough() {
		steps = 4
	}
	for i := 0; i < steps; i++ {
		k := keys[vChoose("key", len(keys))]
		cur, present := model[k]
		switch vChoose("op", 5) {
		case 0: // put (overwrite)
			v := []byte{vByte("v", 0, 255)}
			vAssert(st.Put(ctx, k, bytes.NewReader(v), storage.OverWrite) == nil, "put-succeeds")
			if present {
				vCover("overwritten")
			}
			if deleted[k] {
				vCover("deleted-then-recreated")
			}
			model[k] = v
		case 1: // create-if-absent
			v := []byte{vByte("v", 0, 255)}
			err := st.Put(ctx, k, bytes.NewReader(v), storage.NoOverWrite)
			if present {
				vCover("refused")
				vAssert(err != nil, "create-if-absent-refuses-an-existing-key")
			} else {
				vAssert(err == nil, "create-if-absent-succeeds-on-a-free-key")
				model[k] = v
			}
		case 2: // delete
			err := st.Delete(ctx, k)
			if present {
				vAssert(err == nil, "delete-of-an-existing-key-succeeds")
				delete(model, k)
				deleted[k] = true
			}
		case 3: // get
			rd, err := st.Get(ctx, k)
			if present {
				vAssert(err == nil, "get-of-an-existing-key-succeeds")
				if err == nil {
					got, _ := io.ReadAll(rd)
					vAssert(vBytesEqual(got, cur), "read-returns-the-last-written-bytes")
				}
			} else {
				vAssert(err != nil, "get-of-a-missing-key-fails")
			}
		default: // has
			has, err := st.Has(ctx, k)
			vAssert(err == nil && has == present, "has-agrees-with-the-model")
		}
	}
	var want []string
	for _, k := range keys {
		if _, ok := model[k]; ok {
			want = append(want, k)
		}
	}
	sort.Strings(want)
	all, err := st.Keys(ctx)
	vAssert(err == nil, "keys-succeeds")
	sort.Strings(all)
	vAssert(len(all) == len(want), "keys-returns-exactly-the-live-keys")
	for i := range all {
		if i < len(want) {
			vAssert(all[i] == want[i], "keys-returns-exactly-the-live-keys")
		}
	}
	// paged listing under the prefix "a"
	c := vInt("pageSize", 1, 4)
	var wantA []string
	for _, k := range want {
		if strings.HasPrefix(k, "a") {
			wantA = append(wantA, k)
		}
	}
	var got []string
	token := ""
	for pages := 0; pages < 6; pages++ {
		page, next, err := st.KeysPrefix(ctx, token, "a", "", c)
		vAssert(err == nil, "listing-succeeds")
		got = append(got, page...)
		if next == "" {
			break
		}
		token = next
	}
	vAssert(len(got) == len(wantA), "listing-returns-exactly-the-live-keys-under-the-prefix")
	for i := range got {
		if i < len(wantA) {
			vAssert(got[i] == wantA[i], "listing-in-lexicographic-order")
		}
	}
}

// VerifC16FsFaults: a Put whose file write is cut short by the file system, or whose close fails, reports an error.
func VerifC16FsFaults() {
	vBudget(100000000)
	fs := newVFs()
	st := vNewStore(fs)
	ctx := context.Background()
	mode := vChoose("fault", 2)
	if mode == 0 {
		vCover("short-write")
		room := vInt("accepted", 0, 3)
		fs.writeFault = func(name string, written int) int {
			if room-written < 0 {
				return 0
			}
			return room - written
		}
	} else {
		vCover("close-fails")
		fs.closeErr = errors.New("close: input/output error")
	}
	var src io.Reader = bytes.NewReader([]byte("0123")) // a WriterTo
	if vChoose("sourceKind", 2) == 1 {
		src = &vFailingSource{b: []byte("0123"), failAt: -1} // a plain reader
	}
	err := st.Put(ctx, "k", src, vChoose("exclusive", 2) == 1)
	vAssert(err != nil, "write-cut-short-by-the-file-system-is-reported")
}
