//verif:pkg pkg/core
//verif:use store,kv,corehelp
//verif:assume KV store (pebble/badger) = ordered in-memory model; metadata/blob stores = in-memory models with GCS semantics; backoff.Retry = at most 3 attempts; tickers never fire
//verif:assume purge drivers (PurgeBuildReverseIndex/PurgeDeleteUnused) are not executed as a whole: their kernels (dbReader, loadChunk, uploader tail, chunkUploader, checkAndDeleteKey, scanBlob, PurgeLock) are
//verif:cover VerifC14IndexStream partial-key some-marked
//verif:cover VerifC14Chunks two-chunks
//verif:cover VerifC14DeleteIff deleted kept
//verif:cover VerifC14ScanBlob multi-page
//verif:cover VerifC14Lock forced second-refused
//verif:cover VerifC14LockRace interleaved
package core

import (
	"bytes"
	"context"
	"io"
	"time"

	"github.com/oneconcern/datamon/pkg/model"
	"github.com/oneconcern/datamon/pkg/storage"
	"go.uber.org/zap"
)

var vKeyPool = []string{"aa", "b", "cccc", "dd0"}

func vFillKV(db *vKV, max int) (all []string, unmarked []string) {
	n := vChoose("keys", max+1)
	for i := 0; i < n; i++ {
		k := vKeyPool[i]
		marked := vBool("marked")
		if marked {
			_ = db.Set([]byte(k), []byte("X"))
			vCover("some-marked")
		} else {
			_ = db.Set([]byte(k), []byte{})
			unmarked = append(unmarked, k)
		}
		all = append(all, k)
	}
	return
}

func vReadAllSized(r io.Reader, bsz int, maxCalls int) ([]byte, bool) {
	var out []byte
	for c := 0; c < maxCalls; c++ {
		buf := make([]byte, bsz)
		n, err := r.Read(buf)
		out = append(out, buf[:n]...)
		if err == io.EOF {
			return out, true
		}
		if err != nil {
			return out, false
		}
	}
	return out, false
}

// VerifC14IndexStream: the byte stream of an index chunk and its parse back.
func VerifC14IndexStream() {
	vBudget(8000000)
	db := newVKV()
	_, unmarked := vFillKV(db, 3)
	maxKeys := uint64(vChoose("maxKeys", 3) + 1) // 1..3
	indexTime := time.Unix(1600000000, 123000).UTC()
	r := newDBReader(context.Background(), db, indexTime, zap.NewNop(), maxKeys)
	bsz := vChoose("buf", 12) + 1 // 1..12
	if bsz < 3 {
		vCover("partial-key")
	}
	out, eof := vReadAllSized(r, bsz, 80)
	vAssert(eof, "stream-ends")
	want := indexTime.Format(layout) + "\n"
	streamed := unmarked
	if uint64(len(streamed)) > maxKeys {
		streamed = streamed[:maxKeys]
	}
	for _, k := range streamed {
		want += k + "\n"
	}
	vObserve("stream", string(out))
	vAssert(string(out) == want, "stream-is-timestamp-then-unmarked-keys")
	vAssert(r.Count() == uint64(len(streamed)), "count-is-keys-streamed")
	vAssert(r.Close() == nil, "reader-closes")
	// parse back
	db2 := newVKV()
	ts, n, err := loadChunk(context.Background(), db2, bytes.NewReader(out))
	vAssert(err == nil && ts != nil, "chunk-parses")
	if ts != nil {
		vAssert(ts.Equal(indexTime), "chunk-time-round-trips")
	}
	vAssert(n == uint64(len(streamed)), "chunk-key-count-round-trips")
	vAssert(len(db2.keys) == len(streamed), "chunk-keys-round-trip")
	for _, k := range streamed {
		ok, _ := db2.Exists([]byte(k))
		vAssert(ok, "chunk-key-present-after-load")
	}
}

// VerifC14Chunks: the uploader's final loop partitions the unmarked keys into chunks.
func VerifC14Chunks() {
	vBudget(8000000)
	db := newVKV()
	_, unmarked := vFillKV(db, 4)
	chunk := uint64(vChoose("chunkSize", 3) + 1) // 1..3
	meta := newVStore("meta")
	opts := vPurgeOptions(chunk)
	done := make(chan struct{})
	close(done)
	var unique, uploaded uint64
	indexTime := time.Unix(1600000000, 0).UTC()
	err := uploader(context.Background(), meta, indexTime, &unique, &uploaded, db, zap.NewNop(), done, opts)()
	vAssert(err == nil, "uploader-succeeds")
	vAssert(uploaded == uint64(len(unmarked)), "uploaded-count")
	// chunks 1..k exist, the last one is empty, each holds at most chunk keys, together = unmarked keys in order
	var got []string
	nchunks := 0
	for idx := uint64(1); ; idx++ {
		b, ok := meta.data[model.ReverseIndexFile(idx)]
		if !ok {
			break
		}
		nchunks++
		ks := vChunkKeys(b)
		vAssert(uint64(len(ks)) <= chunk, "chunk-size-respected")
		got = append(got, ks...)
	}
	if nchunks > 2 {
		vCover("two-chunks")
	}
	vAssert(len(meta.keys) == nchunks, "only-chunk-objects-written")
	vAssert(len(got) == len(unmarked), "chunks-cover-unmarked-keys")
	if len(got) == len(unmarked) {
		for i := range got {
			vAssert(got[i] == unmarked[i], "chunks-partition-in-order")
		}
	}
	wantChunks := (len(unmarked)+int(chunk)-1)/int(chunk) + 1
	vAssert(nchunks == wantChunks, "stops-after-first-empty-chunk")
	vObserve("nchunks", nchunks)
	for _, k := range unmarked {
		v, _ := db.Get([]byte(k))
		vAssert(len(v) > 0, "uploaded-key-is-marked")
	}
}

// VerifC14DeleteIff: without faults a blob is deleted iff it is not indexed and not newer than the index.
func VerifC14DeleteIff() {
	key := "k1"
	blob := newVStore("blob")
	blob.putRaw(key, []byte("data"))
	blob.putRaw("other", []byte("x"))
	db := newVKV()
	indexed := vBool("indexed")
	if indexed {
		_ = db.Set([]byte(key), nil)
	}
	idxSec := vI64("indexTime", 1000, 1010)
	updSec := vI64("updated", 1000, 1010)
	indexTime := time.Unix(idxSec, 0)
	upd := time.Unix(updSec, 0)
	blob.attrHook = func(k string, a *storage.Attributes) { a.Updated = upd }
	dry := vBool("dryRun")
	var c1, c2, c3, c4 uint64
	err := checkAndDeleteKey(context.Background(), db, indexTime, key, blob, zap.NewNop(), dry, &c1, &c2, &c3, &c4)
	vAssert(err == nil, "no-error-without-faults")
	_, still := blob.data[key]
	deleted := !still
	if deleted {
		vCover("deleted")
	} else {
		vCover("kept")
	}
	vAssert(deleted == vAnd(vAnd(!indexed, updSec <= idxSec), !dry), "deleted-iff-unindexed-and-not-newer")
	_, otherStill := blob.data["other"]
	vAssert(otherStill, "other-blobs-untouched")
	vObserve("deleted", deleted)
}

// VerifC14ScanBlob: every blob key is examined exactly once for every page size.
func VerifC14ScanBlob() {
	vBudget(8000000)
	blob := newVStore("blob")
	n := vChoose("blobs", 5) // 0..4
	db := newVKV()
	var want []string
	for i := 0; i < n; i++ {
		k := vKeyPool[i]
		blob.putRaw(k, []byte("d"))
		if vBool("indexed") {
			_ = db.Set([]byte(k), nil)
		} else {
			want = append(want, k)
		}
	}
	page := vChoose("page", 5) + 1 // 1..5
	if page < n {
		vCover("multi-page")
	}
	iterator := func(next string) ([]string, string, error) {
		return blob.KeysPrefix(context.Background(), next, "", "", page)
	}
	indexTime := time.Unix(2000, 0)
	res, err := scanBlob(context.Background(), blob, iterator, db, indexTime, zap.NewNop(), false, 2)
	vAssert(err == nil && res != nil, "scan-succeeds")
	if res != nil {
		vAssert(res.ScannedEntries == uint64(n), "every-key-scanned-once")
		vAssert(res.DeletedEntries == uint64(len(want)), "deleted-count")
	}
	vAssert(len(blob.keys) == n-len(want), "exactly-unindexed-deleted")
	for _, k := range want {
		_, still := blob.data[k]
		vAssert(!still, "unindexed-blob-deleted")
	}
	vObserve("left", len(blob.keys))
}

// VerifC14Lock: the purge lock is create-if-absent unless forced.
func VerifC14Lock() {
	meta := newVStore("meta")
	stores := vCtxStores(meta)
	e1 := PurgeLock(stores, WithPurgeLogger(zap.NewNop()))
	vAssert(e1 == nil, "first-lock-acquired")
	force := vBool("force")
	e2 := PurgeLock(stores, WithPurgeLogger(zap.NewNop()), WithPurgeForce(force))
	if force {
		vCover("forced")
		vAssert(e2 == nil, "forced-lock-acquired")
	} else {
		vCover("second-refused")
		vAssert(e2 != nil, "second-lock-refused")
	}
	for _, o := range meta.ops {
		if o.Op == "put" || o.Op == "put-exists" {
			vAssert(o.Key == model.PurgeLock(), "lock-key")
		}
	}
	vAssert(PurgeUnlock(stores, WithPurgeLogger(zap.NewNop())) == nil, "unlock")
	vAssert(PurgeLock(stores, WithPurgeLogger(zap.NewNop())) == nil, "lock-after-unlock")
}

// VerifC14LockRace: two purge jobs taking the lock concurrently, every interleaving at store-call
// granularity: without force at most one acquires it (exactly one when it was free), and PurgeUnlock releases it.
func VerifC14LockRace() {
	meta := newVStore("meta")
	stores := vCtxStores(meta)
	held := vChoose("alreadyHeld", 2) == 1
	if held {
		vAssert(PurgeLock(stores, WithPurgeLogger(zap.NewNop())) == nil, "initial-lock")
	}
	switched := 0
	meta.sched = func() {
		if vChoose("switch", 2) == 1 {
			switched++
			vYield()
		}
	}
	errs := make([]error, 2)
	job := func(k int) func() {
		return func() { errs[k] = PurgeLock(stores, WithPurgeLogger(zap.NewNop())) }
	}
	vTasks(job(0), job(1))
	meta.sched = nil
	if switched > 0 {
		vCover("interleaved")
	}
	got := 0
	for _, e := range errs {
		if e == nil {
			got++
		}
	}
	if held {
		vAssert(got == 0, "held-lock-is-not-acquired-again")
	} else {
		vAssert(got == 1, "exactly-one-job-acquires-the-free-lock")
	}
	vAssert(PurgeUnlock(stores, WithPurgeLogger(zap.NewNop())) == nil, "unlock")
	_, still := meta.data[model.PurgeLock()]
	vAssert(!still, "unlock-releases-the-lock")
}
