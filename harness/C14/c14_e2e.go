//verif:pkg pkg/core
//verif:use store,kv,corehelp,purgehelp
//verif:stub openKV vOpenKV
//verif:assume purge drivers end to end (PurgeBuildReverseIndex, PurgeDeleteUnused with scanContext, repoKeysScanner, bundleKeys, uploader, chunkUploader, copyIndexChunks, loadChunk, scanBlob, checkAndDeleteKey; errgroup from source) over in-memory stores; openKV (which opens the on-disk pebble/badger store) is routed to the in-memory KV model in symbolic runs, the native replay runs the real pebble store; progress tickers never fire; blob update times come from the store clock
//verif:assume world: repository r with two committed bundles sharing a file (or the second bundle in a second repository r2 of the same context, so that there are more repositories than scanner slots at parallelism 1, or in a repository of an extra context sharing the blob store and named to purge) (uploaded through the real code, real cafs), the blobs of a third bundle that was deleted (old, unreferenced), and a bundle uploaded after the index was built; index chunk size 1..3 keys (thorough also 1000), purge parallelism 1..2
//verif:cover VerifC14PurgeE2E several-chunks orphans-deleted two-repositories extra-context late-upload-reuses-orphaned-blobs blob-store-without-touch
package core

import (
	"sort"

	"go.uber.org/zap"
)

// VerifC14PurgeE2E: without faults the index holds exactly the keys the scanned bundles reference, and delete-unused
// removes exactly the unreferenced blobs older than the index.
func VerifC14PurgeE2E() {
	vBudget(800000000)
	vUnwind(400000)
	extra := 0
	if vThorough() {
		extra = vChoose("extraFiles", 3) // more keys in the second bundle: more chunks
	}
	w := vNewPurgeWorldN(extra)
	stores := vCtxStoresAll(w.meta, w.meta, w.blob)
	chunk := uint64(vChoose("chunkSize", 3) + 1)
	if vThorough() && vChoose("bigChunk", 2) == 1 {
		chunk = 1000
	}
	npar := 2
	if vThorough() {
		npar = 3
	}
	par := vChoose("parallel", npar) + 1
	vNextSecond()
	idx, err := PurgeBuildReverseIndex(stores, append([]PurgeOption{WithPurgeLogger(zap.NewNop()), WithPurgeLocalStore(vKVDir("kv-build")), WithPurgeIndexChunkSize(chunk), WithPurgeParallel(par)}, w.extraOpts()...)...)
	vAssert(err == nil, "index-build-succeeds")
	got := w.indexed()
	var want []string
	for k := range w.referenced {
		want = append(want, k)
	}
	sort.Strings(want)
	vAssert(len(got) == len(want), "index-holds-exactly-the-referenced-keys")
	for i := range got {
		if i < len(want) {
			vAssert(got[i] == want[i], "index-holds-exactly-the-referenced-keys")
		}
	}
	vAssert(idx != nil && idx.NumEntries == uint64(len(want)), "reported-entry-count")
	if len(want) > int(chunk) {
		vCover("several-chunks")
	}
	// a bundle uploaded after the index was built
	vNextSecond()
	before := w.blobKeys()
	lateContent := "uploaded-after-the-index"
	reuse := vChoose("lateReusesOrphan", 2) == 1
	if reuse {
		// the late bundle stores the very content of the deleted bundle: its blobs exist already, older than the index
		lateContent = "orphaned-content"
		vCover("late-upload-reuses-orphaned-blobs")
		if vChoose("blobStoreWithoutTouch", 2) == 1 {
			w.blob.noTouch = true // a backend that cannot refresh modification times (S3): duplicates are written again
			vCover("blob-store-without-touch")
		}
	}
	w.upload(map[string]string{"late": lateContent}, []string{"late"})
	late := map[string]bool{}
	for k := range w.blobKeys() {
		if !before[k] {
			late[k] = true
		}
	}
	vNextSecond()
	res, err := PurgeDeleteUnused(stores, append([]PurgeOption{WithPurgeLogger(zap.NewNop()), WithPurgeLocalStore(vKVDir("kv-delete")), WithPurgeParallel(par)}, w.extraOpts()...)...)
	vAssert(err == nil, "delete-unused-succeeds")
	after := w.blobKeys()
	for k := range w.referenced {
		vAssert(after[k], "referenced-blobs-are-kept")
	}
	for k := range late {
		vAssert(after[k], "blobs-newer-than-the-index-are-kept")
	}
	if reuse {
		// the orphaned blobs are in use again (and were refreshed by the late upload): nothing is left to delete
		for k := range w.orphans {
			vAssert(after[k], "blobs-taken-into-use-again-after-the-index-are-kept")
		}
		vAssert(len(after) == len(w.referenced)+len(w.orphans), "nothing-else-is-deleted-or-created")
		vAssert(res != nil && res.DeletedEntries == 0, "reported-deleted-count")
	} else {
		for k := range w.orphans {
			vAssert(!after[k], "old-unreferenced-blobs-are-deleted")
			vCover("orphans-deleted")
		}
		vAssert(len(after) == len(w.referenced)+len(late), "nothing-else-is-deleted-or-created")
		vAssert(res != nil && res.DeletedEntries == uint64(len(w.orphans)), "reported-deleted-count")
	}
	w.downloadable("bundles-still-download-after-purge")
}
