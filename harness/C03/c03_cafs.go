//verif:pkg pkg/cafs
//verif:use store,cafshelp
//verif:assume BLAKE2b is an injective uninterpreted function of (parameter block, input): a damaged blob passes verification only if its bytes equal the original's (collision resistance assumed)
//verif:assume objects of 1..2 leaves (thorough 1..3) at leaf size 2..3, every content byte symbolic, last leaf 1..L bytes; damage to one stored blob: a leaf replaced by arbitrary bytes of any length 0..L+1 (covers bit flips, truncation, emptying, extension, swap with another leaf, foreign data) or deleted; the root blob with one byte replaced, truncated (to 0, 64, all but the last key, all but one byte), extended by a byte, replaced by another object's valid root blob, or deleted
//verif:assume read styles: sequential Read to EOF with every buffer size 1..2L, ReadAt over the whole object and over a solver-chosen range, WriteTo a plain io.Writer, WriteTo an io.WriterAt; hash verification enabled (the default)
//verif:cover VerifC03LeafDamage truncated emptied extended same-length deleted read readat writeto writeto-at undamaged-passes readat-retried-after-error
//verif:cover VerifC03RootDamage byte-replaced truncated foreign-root deleted
package cafs

import (
	"context"
	"io"
	"sync"
)

type vWriterAtSink struct {
	mu sync.Mutex
	b  []byte
}

func (w *vWriterAtSink) Write(p []byte) (int, error) { return w.WriteAt(p, int64(len(w.b))) }
func (w *vWriterAtSink) WriteAt(p []byte, off int64) (int, error) {
	w.mu.Lock()
	defer w.mu.Unlock()
	for int(off)+len(p) > len(w.b) {
		w.b = append(w.b, 0)
	}
	copy(w.b[off:], p)
	return len(p), nil
}

type vPlainSink struct{ b []byte }

func (w *vPlainSink) Write(p []byte) (int, error) { w.b = append(w.b, p...); return len(p), nil }

// vReadStyle reads the whole object in the chosen style; returns the bytes delivered and whether an error was reported.
func vReadStyle(fs *defaultFs, key Key, n int, L uint32) (out []byte, failed bool, rng []int) {
	ctx := context.Background()
	style := vChoose("style", 4)
	switch style {
	case 0:
		vCover("read")
		rd, err := fs.Get(ctx, key)
		if err != nil {
			return nil, true, nil
		}
		bsz := vChoose("bufSize", 2*int(L)) + 1
		for calls := 0; calls < n+int(L)+4; calls++ {
			buf := make([]byte, bsz)
			k, err := rd.Read(buf)
			if k > 0 {
				out = append(out, buf[:k]...)
			}
			if err == io.EOF {
				return out, false, nil
			}
			if err != nil {
				return out, true, nil
			}
		}
		return out, true, nil // no end of stream: treated as failure
	case 1:
		vCover("readat")
		ra, err := fs.GetAt(ctx, key)
		if err != nil {
			return nil, true, nil
		}
		off := vChoose("off", n+1)
		ln := vChoose("len", n-off+1)
		buf := make([]byte, ln)
		k, err := ra.ReadAt(buf, int64(off))
		if err != nil && err != io.EOF {
			// a failed read must not poison later reads through the same instance (shared leaf cache):
			// the same range is read once more and judged on its own
			vCover("readat-retried-after-error")
			ra2, err2 := fs.GetAt(ctx, key)
			if err2 != nil {
				return nil, true, nil
			}
			buf = make([]byte, ln)
			k, err = ra2.ReadAt(buf, int64(off))
			if err != nil && err != io.EOF {
				return nil, true, nil
			}
			return buf[:k], false, []int{off, ln}
		}
		return buf[:k], false, []int{off, ln}
	case 2:
		vCover("writeto")
		rd, err := fs.Get(ctx, key)
		if err != nil {
			return nil, true, nil
		}
		sink := &vPlainSink{}
		_, err = rd.(io.WriterTo).WriteTo(sink)
		return sink.b, err != nil, nil
	default:
		vCover("writeto-at")
		rd, err := fs.Get(ctx, key)
		if err != nil {
			return nil, true, nil
		}
		sink := &vWriterAtSink{}
		_, err = rd.(io.WriterTo).WriteTo(sink)
		return sink.b, err != nil, nil
	}
}


func vObject(tag string) (L uint32, content []byte) {
	L = uint32(vChoose("leaf", 2) + 2) // 2..3
	maxLeaves := 2
	if vThorough() {
		maxLeaves = 3
	}
	m := vChoose("leaves", maxLeaves) + 1
	last := vChoose("lastLen", int(L)) + 1
	n := (m-1)*int(L) + last
	return L, vBytes(tag, n)
}

// VerifC03LeafDamage: with one leaf blob damaged in any way, every read style reports an error or delivers only original bytes.
func VerifC03LeafDamage() {
	vTerminates()
	vBudget(8000000)
	L, content := vObject("c")
	n := len(content)
	store := newVStore("blob")
	key := vStoreObject(store, content, L)
	m := vNumLeaves(n, L)
	// leaf keys in order, from the root blob
	rb := store.data[key.String()]
	victim := vChoose("victim", m)
	var vk Key
	copy(vk[:], rb[victim*KeySize:(victim+1)*KeySize])
	orig := store.data[vk.String()]
	if vChoose("deleted", 2) == 1 {
		vCover("deleted")
		delete(store.data, vk.String())
		i := store.find(vk.String())
		store.keys = append(store.keys[:i], store.keys[i+1:]...)
	} else {
		dl := vChoose("damagedLen", int(L)+2)
		repl := vBytes("d", dl)
		store.data[vk.String()] = repl
		switch {
		case dl == 0:
			vCover("emptied")
		case dl < len(orig):
			vCover("truncated")
		case dl > len(orig):
			vCover("extended")
		default:
			vCover("same-length")
		}
	}
	fs := vNewFs(store, L, 1, 0)
	out, failed, rng := vReadStyle(fs, key, n, L)
	if failed {
		return // an error is what the property asks for
	}
	vCover("undamaged-passes")
	// no error: every delivered byte must be an original byte at its position
	vAssertDelivered(out, content, rng)
}

// vAssertDelivered: out is the object image delivered without error (for ReadAt: the requested range).
func vAssertDelivered(out, content []byte, rng []int) {
	if rng != nil {
		off, ln := rng[0], rng[1]
		vAssert(len(out) <= ln, "no-more-than-requested")
		if off+len(out) <= len(content) {
			vAssert(vBytesEqual(out, content[off:off+len(out)]), "delivered-bytes-are-the-stored-bytes")
		} else {
			vAssert(false, "delivered-bytes-beyond-the-object")
		}
		return
	}
	vAssert(len(out) == len(content), "delivered-without-error-means-complete")
	if len(out) == len(content) {
		vAssert(vBytesEqual(out, content), "delivered-bytes-are-the-stored-bytes")
	}
}

// VerifC03RootDamage: with the root blob damaged, opening / reading the object fails or delivers only original bytes.
func VerifC03RootDamage() {
	vTerminates()
	vBudget(8000000)
	L, content := vObject("c")
	n := len(content)
	store := newVStore("blob")
	key := vStoreObject(store, content, L)
	rb := store.data[key.String()]
	switch vChoose("damage", 5) {
	case 0:
		vCover("byte-replaced")
		pos := []int{0, KeySize - 1, len(rb) - KeySize, len(rb) - 1}[vChoose("pos", 4)]
		nb := append([]byte{}, rb...)
		nb[pos] = rb[pos] ^ vByte("flippedBits", 1, 255) // any other byte value (relative: digests differ between the hash model and the native run)
		store.data[key.String()] = nb
	case 1:
		vCover("truncated")
		cut := []int{0, KeySize, len(rb) - KeySize, len(rb) - 1}[vChoose("cut", 4)]
		store.data[key.String()] = append([]byte{}, rb[:cut]...)
	case 2:
		store.data[key.String()] = append(append([]byte{}, rb...), vByte("extra", 0, 255))
	case 3:
		vCover("foreign-root")
		// another object's valid root blob under this key
		other := vBytes("o", n)
		vAssume(vNot(vBytesEqual(other, content)))
		k2 := vStoreObject(store, other, L)
		store.data[key.String()] = append([]byte{}, store.data[k2.String()]...)
	default:
		vCover("deleted")
		delete(store.data, key.String())
		i := store.find(key.String())
		store.keys = append(store.keys[:i], store.keys[i+1:]...)
	}
	fs := vNewFs(store, L, 1, 0)
	out, failed, rng := vReadStyle(fs, key, n, L)
	if failed {
		return
	}
	vAssertDelivered(out, content, rng)
}
