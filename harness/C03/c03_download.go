//verif:pkg pkg/core
//verif:use store,corehelp,aferostub
//verif:assume bundle download under damage: a bundle of two files (a: 70 bytes = two leaves at leaf size 64, with symbolic bytes at 0, 63, 64; b: 3 bytes) uploaded through the real code; then one blob of the blob store - the root or a leaf of either file - has a byte flipped (symbolic position among {0, 1, last}, symbolic bits), is truncated to a symbolic length, emptied, replaced by the other leaf, or deleted; the bundle is downloaded by the real Publish into the real local file system store (pkg/storage/localfs) over an in-memory afero file system
//verif:cover VerifC03Download leaf-damaged root-damaged download-failed destination-write-cut-short
package core

import (
	"context"
	"io"

	"github.com/oneconcern/datamon/pkg/cafs"
	"github.com/oneconcern/datamon/pkg/model"
	"github.com/oneconcern/datamon/pkg/storage/localfs"
	"go.uber.org/zap"
)

// VerifC03Download: a bundle download over a damaged blob store never leaves altered bytes in the destination:
// every write it makes into the destination carries the stored bytes of that position, and when it reports success every file is complete.
func VerifC03Download() {
	vBudget(900000000)
	vUnwind(300000)
	meta, blob := newVStore("meta"), newVStore("blob")
	stores := vCtxStoresAll(meta, meta, blob)
	ctx := context.Background()
	vAssert(CreateRepo(model.RepoDescriptor{Name: "r", Description: "d", Contributor: model.Contributor{Name: "n", Email: "e@x.io"}}, stores) == nil, "create-repo")
	ca := make([]byte, 70)
	for i := range ca {
		ca[i] = byte(11*i + 3)
	}
	ca[0], ca[63], ca[64] = vByte("a0", 0, 255), vByte("a63", 0, 255), vByte("a64", 0, 255)
	cb := []byte("bbb")
	src := newVStore("src")
	src.putRaw("a", ca)
	src.putRaw("b", cb)
	up := NewBundle(Repo("r"), ContextStores(stores), ConsumableStore(src), Logger(zap.NewNop()),
		BundleDescriptor(model.NewBundleDescriptor(model.Message("m"), model.BundleContributor(model.Contributor{Name: "n", Email: "e@x.io"}))),
		ConcurrentFileUploads(1))
	up.BundleDescriptor.LeafSize = 64
	vAssert(Upload(ctx, up) == nil, "upload")
	probe := NewBundle(Repo("r"), ContextStores(stores), BundleID(up.BundleID), Logger(zap.NewNop()))
	vAssert(DownloadMetadata(ctx, probe) == nil, "metadata")
	hashOf := map[string]string{}
	for _, e := range probe.BundleEntries {
		hashOf[e.NameWithPath] = e.Hash
	}
	// the victim blob, by role
	file := []string{"a", "b"}[vChoose("file", 2)]
	root, err := cafs.KeyFromString(hashOf[file])
	vAssert(err == nil, "root-key")
	leaves, err := cafs.LeavesForHash(blob, root, 64, "")
	vAssert(err == nil, "leaves")
	victim := root.StringWithPrefix("")
	role := vChoose("role", 3) // 0: the root blob, 1: the first leaf, 2: the last leaf
	if role > 0 {
		vCover("leaf-damaged")
		k := 0
		if role == 2 {
			k = len(leaves) - 1
		}
		victim = leaves[k].StringWithPrefix("")
	} else {
		vCover("root-damaged")
	}
	orig, ok := blob.data[victim]
	vAssert(ok, "victim-exists")
	fs := newVFs()
	dmg := vChoose("damage", 5)
	if dmg == 4 {
		// no damage to the blobs: the destination file system cuts the write of a file short (disk full)
		vCover("destination-write-cut-short")
		room := vInt("accepted", 0, 69)
		fs.writeFault = func(name string, written int) int {
			if vNorm(name) != "a" {
				return -1
			}
			if room-written < 0 {
				return 0
			}
			return room - written
		}
	}
	switch dmg {
	case 4:
	case 0: // some bits of one byte flipped
		nb := append([]byte{}, orig...)
		pos := []int{0, 1, len(nb) - 1}[vChoose("pos", 3)]
		nb[pos] ^= vByte("flippedBits", 1, 255)
		blob.data[victim] = nb
	case 1: // truncated (emptied included)
		cut := vInt("cut", 0, len(orig)-1)
		blob.data[victim] = append([]byte{}, orig[:cut]...)
	case 2: // replaced by another blob of the same file (the other leaf, or the root)
		other := root.StringWithPrefix("")
		if role == 0 || (len(leaves) > 1 && role == 1) {
			other = leaves[len(leaves)-1].StringWithPrefix("")
		}
		vAssume(other != victim)
		blob.data[victim] = append([]byte{}, blob.data[other]...)
	default: // deleted
		delete(blob.data, victim)
		i := blob.find(victim)
		blob.keys = append(blob.keys[:i], blob.keys[i+1:]...)
	}
	dst := localfs.New(fs, localfs.WithLogger(zap.NewNop()), localfs.WithRetry(false))
	down := NewBundle(Repo("r"), ContextStores(stores), ConsumableStore(dst), BundleID(up.BundleID), Logger(zap.NewNop()), ConcurrentFileDownloads(1), ConcurrentFilelistDownloads(1))
	perr := Publish(ctx, down)
	if perr != nil {
		vCover("download-failed")
	}
	if dmg == 4 {
		vAssert(perr != nil, "download-cut-short-by-the-destination-is-reported")
	}
	want := map[string][]byte{"a": ca, "b": cb}
	// every write into the destination carries the stored bytes of that position
	for _, w := range fs.writes {
		content, known := want[vNorm(w.Name)]
		if !known {
			continue // bundle metadata under .datamon
		}
		vAssert(w.Off+len(w.Data) <= len(content), "no-bytes-written-beyond-the-stored-content")
		if w.Off+len(w.Data) <= len(content) {
			vAssert(vBytesEqual(w.Data, content[w.Off:w.Off+len(w.Data)]), "no-altered-byte-is-written-into-the-destination")
		}
	}
	if perr != nil {
		return
	}
	// a download that reports success has written every file completely
	for name, content := range want {
		f, e := fs.Open(name)
		vAssert(e == nil, "download-that-reports-success-wrote-every-file")
		if e != nil {
			continue
		}
		got, _ := io.ReadAll(f)
		vAssert(len(got) == len(content) && vBytesEqual(got, content), "download-that-reports-success-wrote-every-file")
	}
}
