//verif:pkg pkg/core
//verif:use store,corehelp
//verif:assume end-to-end update through the real code: two bundles uploaded with implUpload into one repository (real cafs, BLAKE2b as injective UF), the first downloaded with Publish into a local store, then Update(remote second bundle, local copy) as the CLI calls it; compared with a fresh Publish of the second bundle
//verif:assume trees over the files a, b, c: each absent or present with one of two contents in either bundle (a and b; c only in thorough), so identical trees under different bundle ids, empty trees, disjoint trees and same-path-different-content all occur
//verif:assume update under faults: trees {a: one, d/b: one} -> {a: two, c: new} (one file changed, one removed, one added), the local copy updated with one transient fault at a solver-chosen store call (metadata, blob or local store, reads and listings included)
//verif:cover VerifC05UpdateFaults update-failed local-metadata-read-cut
//verif:cover VerifC05UpdateE2E identical-trees-different-ids empty-target empty-source changed-content nested-metadata-lookalike local-delete-fails
package core

import (
	"context"

	"github.com/oneconcern/datamon/pkg/model"
	"go.uber.org/zap"
)

func VerifC05UpdateE2E() {
	vBudget(600000000)
	vUnwind(300000)
	meta, blob := newVStore("meta"), newVStore("blob")
	stores := vCtxStoresAll(meta, meta, blob)
	ctx := context.Background()
	vAssert(CreateRepo(model.RepoDescriptor{Name: "r", Description: "d", Contributor: model.Contributor{Name: "n", Email: "e@x.io"}}, stores) == nil, "create-repo")
	names := []string{"a", "d/b"}
	if vChoose("nestedDatamonName", 2) == 1 {
		// a user file that merely looks like bundle metadata, below a nested .datamon directory
		names[1] = "conf/.datamon/v1-bundle-files-0.yaml"
		vCover("nested-metadata-lookalike")
	}
	if vThorough() {
		names = append(names, "c")
	}
	mkTree := func(tag string) map[string]string {
		t := map[string]string{}
		for _, n := range names {
			switch vChoose(tag+"_"+n, 3) {
			case 1:
				t[n] = "one-" + n
			case 2:
				t[n] = "two-" + n
			}
		}
		return t
	}
	upload := func(tree map[string]string) *Bundle {
		src := newVStore("src")
		for _, n := range names {
			if c, ok := tree[n]; ok {
				src.putRaw(n, []byte(c))
			}
		}
		b := NewBundle(Repo("r"), ContextStores(stores), ConsumableStore(src), Logger(zap.NewNop()),
			BundleDescriptor(model.NewBundleDescriptor(model.Message("m"), model.BundleContributor(model.Contributor{Name: "n", Email: "e@x.io"}))),
			ConcurrentFileUploads(2))
		b.BundleDescriptor.LeafSize = 64
		vAssert(Upload(ctx, b) == nil, "upload")
		return b
	}
	t1, t2 := mkTree("first"), mkTree("second")
	b1 := upload(t1)
	vNextSecond()
	b2 := upload(t2)
	same := len(t1) == len(t2)
	for n, c := range t1 {
		same = same && t2[n] == c
	}
	if same {
		vCover("identical-trees-different-ids")
	}
	if len(t2) == 0 {
		vCover("empty-target")
	}
	if len(t1) == 0 {
		vCover("empty-source")
	}
	for n, c := range t1 {
		if c2, ok := t2[n]; ok && c2 != c {
			vCover("changed-content")
		}
	}
	// local copy of the first bundle
	local := newVStore("local")
	vAssert(Publish(ctx, NewBundle(Repo("r"), ContextStores(stores), ConsumableStore(local), BundleID(b1.BundleID), Logger(zap.NewNop()), ConcurrentFileDownloads(2), ConcurrentFilelistDownloads(2))) == nil, "first-download")
	// update it to the second bundle, the way the CLI does
	localBundle := NewBundle(ConsumableStore(local), Logger(zap.NewNop()))
	remoteBundle := NewBundle(Repo("r"), ContextStores(stores), BundleID(b2.BundleID), Logger(zap.NewNop()), ConcurrentFileDownloads(2), ConcurrentFilelistDownloads(2))
	removed := ""
	for _, n := range names {
		if _, in1 := t1[n]; in1 {
			if _, in2 := t2[n]; !in2 {
				removed = n
			}
		}
	}
	deleteFails := removed != "" && vChoose("localDeleteFails", 2) == 1
	if deleteFails {
		// the local store refuses to remove a file the target bundle no longer has (e.g. permission denied)
		vCover("local-delete-fails")
		local.fail = func(op, key string) error {
			if op == "delete" && key == removed {
				return errVFault
			}
			return nil
		}
	}
	err := Update(ctx, remoteBundle, localBundle)
	local.fail = nil
	if deleteFails {
		_, still := local.data[removed]
		vAssert(err != nil || !still, "update-that-could-not-remove-a-file-reports-failure")
		return
	}
	vAssert(err == nil, "update-succeeds")
	// reference: a fresh download of the second bundle
	fresh := newVStore("fresh")
	vAssert(Publish(ctx, NewBundle(Repo("r"), ContextStores(stores), ConsumableStore(fresh), BundleID(b2.BundleID), Logger(zap.NewNop()), ConcurrentFileDownloads(2), ConcurrentFilelistDownloads(2))) == nil, "fresh-download")
	vAssert(len(local.keys) == len(fresh.keys), "updated-copy-has-exactly-the-objects-of-a-fresh-download")
	for k, v := range fresh.data {
		lv, ok := local.data[k]
		vAssert(ok, "updated-copy-holds-every-object-of-a-fresh-download")
		if ok {
			vAssert(string(lv) == string(v), "updated-copy-is-byte-identical-to-a-fresh-download")
		}
	}
	// the metadata kept locally is the target's
	info, ierr := getConsumableStoreMetadataKeysInfo(ctx, localBundle)
	vAssert(ierr == nil && info.bundleID == b2.BundleID, "local-metadata-names-the-target-bundle")
	for k := range local.data {
		if model.IsGeneratedFile(k) {
			md, e := model.GetConsumableStorePathMetadata(k)
			vAssert(e == nil && md.BundleID == b2.BundleID, "no-metadata-of-the-previous-bundle-remains")
		}
	}
}

// VerifC05UpdateFaults: one transient store fault at any store call of an Update: it reports the failure, or the
// local copy ends byte-identical to a fresh download of the target.
func VerifC05UpdateFaults() {
	vBudget(900000000)
	vUnwind(300000)
	meta, blob := newVStore("meta"), newVStore("blob")
	stores := vCtxStoresAll(meta, meta, blob)
	ctx := context.Background()
	vAssert(CreateRepo(model.RepoDescriptor{Name: "r", Description: "d", Contributor: model.Contributor{Name: "n", Email: "e@x.io"}}, stores) == nil, "create-repo")
	upload := func(tree map[string]string, order []string) *Bundle {
		src := newVStore("src")
		for _, n := range order {
			src.putRaw(n, []byte(tree[n]))
		}
		b := NewBundle(Repo("r"), ContextStores(stores), ConsumableStore(src), Logger(zap.NewNop()),
			BundleDescriptor(model.NewBundleDescriptor(model.Message("m"), model.BundleContributor(model.Contributor{Name: "n", Email: "e@x.io"}))),
			ConcurrentFileUploads(1))
		b.BundleDescriptor.LeafSize = 64
		vAssert(Upload(ctx, b) == nil, "upload")
		return b
	}
	b1 := upload(map[string]string{"a": "one-a", "d/b": "one-b"}, []string{"a", "d/b"})
	vNextSecond()
	b2 := upload(map[string]string{"a": "two-a", "c": "new-c"}, []string{"a", "c"})
	local := newVStore("local")
	vAssert(Publish(ctx, NewBundle(Repo("r"), ContextStores(stores), ConsumableStore(local), BundleID(b1.BundleID), Logger(zap.NewNop()), ConcurrentFileDownloads(1), ConcurrentFilelistDownloads(1))) == nil, "first-download")
	cr := &vCrasher{stores: []*vStore{meta, blob, local}, allCalls: true, transient: true}
	cutMeta := vChoose("faultKind", 2) == 1
	if cutMeta {
		// instead of a failing call: the read of one of the local copy's metadata files (descriptor or file list) is cut
		vCover("local-metadata-read-cut")
		var metaKeys []string
		for _, k := range local.keys {
			if model.IsGeneratedFile(k) {
				metaKeys = append(metaKeys, k)
			}
		}
		vAssert(len(metaKeys) >= 2, "local-metadata")
		local.cutAfter = map[string]int{metaKeys[vChoose("metadataFile", len(metaKeys))]: 1}
	} else {
		cr.crashAt = vInt("faultAt", 1, 60)
		cr.install()
	}
	localBundle := NewBundle(ConsumableStore(local), Logger(zap.NewNop()))
	remoteBundle := NewBundle(Repo("r"), ContextStores(stores), BundleID(b2.BundleID), Logger(zap.NewNop()), ConcurrentFileDownloads(1), ConcurrentFilelistDownloads(1))
	err := Update(ctx, remoteBundle, localBundle)
	local.cutAfter = nil
	if !cutMeta {
		cr.revive()
		vAssume(cr.crashed)
	}
	if err != nil {
		vCover("update-failed")
		return
	}
	vCover("update-survived-the-fault")
	fresh := newVStore("fresh")
	vAssert(Publish(ctx, NewBundle(Repo("r"), ContextStores(stores), ConsumableStore(fresh), BundleID(b2.BundleID), Logger(zap.NewNop()), ConcurrentFileDownloads(1), ConcurrentFilelistDownloads(1))) == nil, "fresh-download")
	vAssert(len(local.keys) == len(fresh.keys), "updated-copy-has-exactly-the-objects-of-a-fresh-download")
	for k, v := range fresh.data {
		lv, ok := local.data[k]
		vAssert(ok && string(lv) == string(v), "updated-copy-is-byte-identical-to-a-fresh-download")
	}
}
