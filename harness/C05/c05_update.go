//verif:pkg pkg/core
//verif:use store,cafsstub
//verif:assume update kernel: downloadBundleEntries driven exactly as unpackDataFiles drives it (goroutine + error/done channels), with a stub content store whose objects are named by key; file names a,b,c (each present or absent on either side), content keys from a pool of 2 (thorough: 3)
//verif:assume the metadata rewrite at the end of unpackDataFiles (cafs.New + PublishMetadata) is not part of this harness
//verif:cover VerifC05UpdateEntries added removed changed identical
package core

import (
	"context"

	"github.com/oneconcern/datamon/pkg/model"
	"go.uber.org/zap"
)

// VerifC05UpdateEntries: after the data phase of Update, the local copy holds exactly
// the target bundle's files with the target's content.
func VerifC05UpdateEntries() {
	vBudget(30000000)
	names := []string{"a", "b", "d/c"}
	fs := newVCafs()
	for k := 1; k <= 3; k++ {
		fs.add(vKeyN(k), []byte{byte('0' + k)})
	}
	local := newVStore("consumable")
	var have, want []model.BundleEntry
	wantKey := map[string]int{}
	pool := 2 // content keys per side (quick); thorough: 3
	if vThorough() {
		pool = 3
	}
	for _, n := range names {
		hk := vChoose("have_"+n, pool+1) // 0 = absent, 1.. = content key
		wk := vChoose("want_"+n, pool+1)
		if hk > 0 {
			have = append(have, model.BundleEntry{NameWithPath: n, Hash: vKeyN(hk).String(), Size: 1})
			local.putRaw(n, []byte{byte('0' + hk)})
		}
		if wk > 0 {
			want = append(want, model.BundleEntry{NameWithPath: n, Hash: vKeyN(wk).String(), Size: 1})
			wantKey[n] = wk
		}
		switch {
		case hk == 0 && wk > 0:
			vCover("added")
		case hk > 0 && wk == 0:
			vCover("removed")
		case hk > 0 && wk > 0 && hk != wk:
			vCover("changed")
		case hk > 0 && hk == wk:
			vCover("identical")
		}
	}
	src := &Bundle{RepoID: "r", BundleID: "B2", BundleEntries: want, l: zap.NewNop(), concurrentFileDownloads: vChoose("conc", 2) + 1}
	dest := &Bundle{RepoID: "r", BundleID: "B1", BundleEntries: have, l: zap.NewNop(), ConsumableStore: local}
	errC := make(chan errorHit)
	doneOkC := make(chan struct{})
	go downloadBundleEntries(context.Background(), src, nil, dest, fs, downloadBundleChans{error: errC, doneOk: doneOkC})
	var err error
	select {
	case eh := <-errC:
		err = eh.error
	case <-doneOkC:
	}
	vAssert(err == nil, "update-succeeds")
	for _, n := range names {
		b, ok := local.data[n]
		wk := wantKey[n]
		if wk == 0 {
			vAssert(!ok, "file-not-in-target-is-removed")
		} else {
			vAssert(ok, "file-of-target-is-present")
			vAssert(len(b) == 1 && b[0] == byte('0'+wk), "file-has-target-content")
		}
	}
	vAssert(len(local.keys) == len(want), "nothing-else-in-the-local-copy")
}
