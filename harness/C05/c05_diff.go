//verif:pkg pkg/core
//verif:assume names are unique within a bundle (the documented shape of a bundle); names and hashes are 1 symbolic byte each, 0..3 entries per side
//verif:assume Go map iteration order is modelled as insertion order; the assertions are order-insensitive (set semantics)
//verif:cover VerifC05Diff added deleted changed unchanged empty-both
package core

import (
	"github.com/oneconcern/datamon/pkg/model"
)

func vEntries(tag string, n int) []model.BundleEntry {
	out := make([]model.BundleEntry, n)
	for i := 0; i < n; i++ {
		out[i] = model.BundleEntry{
			NameWithPath: vString(tag+"name", 1),
			Hash:         vString(tag+"hash", 1),
			Size:         uint64(vInt(tag+"size", 0, 3)),
		}
		for j := 0; j < i; j++ {
			vAssume(vNot(vStrEqual(out[i].NameWithPath, out[j].NameWithPath)))
		}
	}
	return out
}

// VerifC05Diff: diffBundles lists exactly the paths added, removed or changed, each once.
func VerifC05Diff() {
	vBudget(20000000)
	na := vChoose("nExisting", 4)
	nb := vChoose("nAdditional", 4)
	if !vThorough() {
		vAssume(na+nb <= 5)
	}
	ea := vEntries("a", na)
	eb := vEntries("b", nb)
	A := &Bundle{BundleEntries: ea}
	B := &Bundle{BundleEntries: eb}
	d, err := diffBundles(A, B)
	vAssert(err == nil, "no-error")
	if na == 0 && nb == 0 {
		vCover("empty-both")
		vAssert(len(d.Entries) == 0, "empty-diff-of-empty-bundles")
	}
	// every diff entry is justified, of the right type, with the right entries
	for _, de := range d.Entries {
		inA, inB := false, false
		var xa, xb model.BundleEntry
		for _, e := range ea {
			if vStrEqual(e.NameWithPath, de.Name) {
				inA, xa = true, e
			}
		}
		for _, e := range eb {
			if vStrEqual(e.NameWithPath, de.Name) {
				inB, xb = true, e
			}
		}
		switch de.Type {
		case DiffEntryTypeAdd:
			vCover("added")
			vAssert(!inA && inB, "added-entry-only-in-additional")
			vAssert(vAnd(vStrEqual(de.Additional.NameWithPath, xb.NameWithPath), vStrEqual(de.Additional.Hash, xb.Hash)), "added-entry-payload")
		case DiffEntryTypeDel:
			vCover("deleted")
			vAssert(inA && !inB, "deleted-entry-only-in-existing")
			vAssert(vAnd(vStrEqual(de.Existing.NameWithPath, xa.NameWithPath), vStrEqual(de.Existing.Hash, xa.Hash)), "deleted-entry-payload")
		case DiffEntryTypeDif:
			vCover("changed")
			vAssert(inA && inB, "changed-entry-in-both")
			vAssert(vNot(vStrEqual(xa.Hash, xb.Hash)), "changed-entry-hashes-differ")
			vAssert(vAnd(vStrEqual(de.Existing.Hash, xa.Hash), vStrEqual(de.Additional.Hash, xb.Hash)), "changed-entry-payload")
		default:
			vAssert(false, "unknown-diff-type")
		}
	}
	// each path listed at most once
	for i := range d.Entries {
		for j := 0; j < i; j++ {
			vAssert(vNot(vStrEqual(d.Entries[i].Name, d.Entries[j].Name)), "path-listed-once")
		}
	}
	// completeness: every path that differs is listed
	listed := func(name string) bool {
		r := false
		for _, de := range d.Entries {
			r = vOr(r, vStrEqual(de.Name, name))
		}
		return r
	}
	for _, e := range ea {
		same := false
		for _, f := range eb {
			same = vOr(same, vAnd(vStrEqual(e.NameWithPath, f.NameWithPath), vStrEqual(e.Hash, f.Hash)))
		}
		vAssert(listed(e.NameWithPath) == vNot(same), "existing-path-listed-iff-removed-or-changed")
		if same {
			vCover("unchanged")
		}
	}
	for _, f := range eb {
		same := false
		for _, e := range ea {
			same = vOr(same, vAnd(vStrEqual(e.NameWithPath, f.NameWithPath), vStrEqual(e.Hash, f.Hash)))
		}
		vAssert(listed(f.NameWithPath) == vNot(same), "additional-path-listed-iff-added-or-changed")
	}
}
