//verif:pkg pkg/filetracker
//verif:assume offsets >= 0, lengths >= 1 (no caller exists: TFile.WriteAt is a stub; the obvious precondition); sequence and step harnesses: offset+length <= 255+64 (keys differ in their last two bytes only)
//verif:assume go-immutable-radix executed from source; sync.Mutex modelled
//verif:cover VerifC22Seq writes-done overlap-left adjacent nested
//verif:cover VerifC22Step three-ranges merged-two
//verif:cover VerifC22Wide write-straddles-4GiB length-beyond-2^53
//verif:assume wide harness: one write (thorough: two) and a probe, every offset / length = an 11-bit symbolic part + a solver-chosen base in {0, 2^32-1024, 2^53} (sums stay below 2^55: no int64 overflow)
package filetracker

import iradix "github.com/hashicorp/go-immutable-radix"

func vModified(offs, lens []int64, p int64) bool {
	m := false
	for i := range offs {
		m = vOr(m, vAnd(offs[i] <= p, p < offs[i]+lens[i]))
	}
	return m
}

// vProbe checks getRangeToRead at an arbitrary offset against the oracle.
func vProbe(t *TFile, offs, lens []int64) {
	x := vI64("x", 0, 300)
	l := vI64("probeLen", 1, 64)
	c, mut := t.getRangeToRead(x, l)
	vObserve("c", c)
	vObserve("mut", mut)
	vAssert(mut == vModified(offs, lens, x), "modified-iff-written")
	vAssert(vAnd(c >= 1, c <= l), "extent-in-range")
	d := vI64("d", 0, 64)
	vAssume(d < c)
	vAssert(vModified(offs, lens, x+d) == vModified(offs, lens, x), "extent-does-not-cross-boundary")
}

// VerifC22Wide: one write (thorough: two) and a probe with offsets and lengths over wide ranges: each value is a symbolic
// 11-bit part plus a solver-chosen base out of {0, 2^32-1024, 2^53} (files above 4 GiB, lengths beyond the exact
// range of a float64), so keys differ in their high bytes and ranges span whole 256-byte blocks.
func VerifC22Wide() {
	vBudget(20000000)
	wide := func(name string, lo int64) int64 {
		v := vI64(name, lo, 2047)
		switch vInt(name+"Base", 0, 2) {
		case 1:
			v += 1<<32 - 1024
		case 2:
			v += 1 << 53
		}
		return v
	}
	t := &TFile{tracker: iradix.New()}
	k := 1
	if vThorough() {
		k = 2
	}
	offs := make([]int64, k)
	lens := make([]int64, k)
	for i := 0; i < k; i++ {
		offs[i] = wide("off", 0)
		lens[i] = wide("len", 1)
		t.trackWrite(offs[i], lens[i])
	}
	if vAnd(offs[0] < 1<<32, offs[0]+lens[0] > 1<<32) {
		vCover("write-straddles-4GiB")
	}
	if lens[0] > 1<<53 {
		vCover("length-beyond-2^53")
	}
	vAssert(t.tracker.Len()%2 == 0, "even-number-of-markers")
	x := wide("x", 0)
	l := wide("probeLen", 1)
	c, mut := t.getRangeToRead(x, l)
	vObserve("c", c)
	vObserve("mut", mut)
	vAssert(mut == vModified(offs, lens, x), "modified-iff-written")
	vAssert(vAnd(c >= 1, c <= l), "extent-in-range")
	d := vI64("d", 0, 1<<54)
	vAssume(d < c)
	vAssert(vModified(offs, lens, x+d) == vModified(offs, lens, x), "extent-does-not-cross-boundary")
	// the extent is maximal: it ends at the end of the request or at a boundary
	vAssert(vOr(c == l, vModified(offs, lens, x+c) != vModified(offs, lens, x)), "extent-is-maximal")
}

// VerifC22Seq: k writes from the empty tracker, then a probe.
func VerifC22Seq() {
	vBudget(6000000)
	k := 3
	if vThorough() {
		k = 4
	}
	t := &TFile{tracker: iradix.New()}
	offs := make([]int64, k)
	lens := make([]int64, k)
	for i := 0; i < k; i++ {
		offs[i] = vI64("off", 0, 200)
		lens[i] = vI64("len", 1, 55)
		t.trackWrite(offs[i], lens[i])
	}
	vCover("writes-done")
	if vAnd(offs[1] < offs[0], offs[1]+lens[1] > offs[0]) {
		vCover("overlap-left")
	}
	if offs[1] == offs[0]+lens[0] {
		vCover("adjacent")
	}
	if vAnd(offs[1] > offs[0], offs[1]+lens[1] < offs[0]+lens[0]) {
		vCover("nested")
	}
	// representation invariant: an even number of keys
	vAssert(t.tracker.Len()%2 == 0, "even-number-of-markers")
	vProbe(t, offs, lens)
}

// VerifC22Step: one write from an arbitrary valid pre-state of up to three
// disjoint, non-adjacent ranges (the representation invariant), covering
// histories of any length whose footprint stays within three ranges.
func VerifC22Step() {
	vBudget(6000000)
	r := vChoose("ranges", 4) // 0..3 pre-existing ranges
	txn := iradix.New().Txn()
	var offs, lens []int64
	prevEnd := int64(-2)
	for i := 0; i < r; i++ {
		s := vI64("s", 0, 200)
		l := vI64("l", 1, 40)
		vAssume(s > prevEnd) // disjoint and not adjacent: s >= prevEnd+1
		vAssume(s+l <= 250)
		txn.Insert(getKey(s), startFlag)
		txn.Insert(getKey(s+l), endFlag)
		offs = append(offs, s)
		lens = append(lens, l)
		prevEnd = s + l
	}
	t := &TFile{tracker: txn.Commit()}
	if r == 3 {
		vCover("three-ranges")
	}
	o := vI64("off", 0, 200)
	l := vI64("len", 1, 55)
	t.trackWrite(o, l)
	offs = append(offs, o)
	lens = append(lens, l)
	n := t.tracker.Len()
	vAssert(n%2 == 0 && n >= 2 && n <= 2*(r+1), "marker-count")
	if r == 3 && n == 4 {
		vCover("merged-two")
	}
	// invariant preserved: markers alternate start/end with strictly increasing keys, ranges non-adjacent
	alt := true
	wantStart := true
	last := int64(-1)
	t.tracker.Root().Walk(func(k []byte, v interface{}) bool {
		key := getOffset(k)
		alt = vAnd(alt, v.(bool) == wantStart)
		alt = vAnd(alt, key > last)
		wantStart = !wantStart
		last = key
		return false
	})
	vAssert(alt, "markers-alternate")
	vProbe(t, offs, lens)
}
