//verif:pkg pkg/filetracker
//verif:assume offsets >= 0, lengths >= 1, offset+length fits a byte (one-byte radix keys), no int64 overflow
//verif:cover VerifC22Seq two-writes
package filetracker

import iradix "github.com/hashicorp/go-immutable-radix"

// VerifC22Seq: k writes, then probe an offset; oracle = union of written ranges.
func VerifC22Seq() {
	vBudget(3000000)
	k := 2
	if vThorough() {
		k = 3
	}
	t := &TFile{tracker: iradix.New()}
	offs := make([]int64, k)
	lens := make([]int64, k)
	for i := 0; i < k; i++ {
		offs[i] = vI64("off", 0, 200)
		lens[i] = vI64("len", 1, 55)
		t.trackWrite(offs[i], lens[i])
	}
	vCover("two-writes")
	x := vI64("x", 0, 255)
	l := vI64("probeLen", 1, 64)
	modified := func(p int64) bool {
		m := false
		for i := 0; i < k; i++ {
			m = vOr(m, vAnd(offs[i] <= p, p < offs[i]+lens[i]))
		}
		return m
	}
	c, mut := t.getRangeToRead(x, l)
	vObserve("c", c)
	vObserve("mut", mut)
	vAssert(mut == modified(x), "modified-iff-written")
	vAssert(vAnd(c >= 1, c <= l), "extent-in-range")
	d := vI64("d", 0, 64)
	vAssume(d < c)
	vAssert(modified(x+d) == modified(x), "extent-does-not-cross-boundary")
}
