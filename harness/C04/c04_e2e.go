//verif:pkg pkg/core
//verif:use store,corehelp
//verif:assume end to end through the real code: implUpload (uploadBundle, uploadBundleFiles, real cafs writer), then implPublish into a fresh consumable store (unpackBundleDescriptor, unpackBundleFileList, unpackDataFiles, real cafs reader with hash verification); BLAKE2b is an injective uninterpreted function, yaml.v2 round-trips opaque documents, ksuid.NewRandom yields fresh ids, stores are in-memory models
//verif:assume tree: files a (2 symbolic bytes), d/b (1 symbolic byte), e (empty) each present or absent, plus generated-path decoys .datamon/x and d/.datamon (a legal user file); leaf size 64; entries per index file 1..3
//verif:cover VerifC04Reassembly malformed-middle-file reassembled
//verif:assume faults: a fixed tree (a: 70 bytes over two leaves, d/b: 1 byte, e: empty; 2 entries per index file) uploaded or downloaded with one transient fault at a solver-chosen store call (source / metadata / blob / destination store, reads and listings included)
//verif:cover VerifC04Faults upload-faulted download-faulted operation-failed operation-survived-the-fault
//verif:assume cut transfers: the reader of source file a (upload) or of one blob of file a (download) fails with io.ErrUnexpectedEOF after a solver-chosen number of bytes
//verif:cover VerifC04CutTransfers source-cut blob-cut metadata-cut
//verif:cover VerifC04Select missing-skipped single-file filtered repeated-key
//verif:cover VerifC04UploadDownload decoy-skipped nested-datamon-kept two-index-files empty-bundle source-read-fault-reported unreadable-source-file-skipped duplicated-content
package core

import (
	"context"

	"github.com/oneconcern/datamon/pkg/cafs"
	"github.com/oneconcern/datamon/pkg/model"
	"go.uber.org/zap"
)

func vRepoStores() (meta, blob *vStore) {
	meta = newVStore("meta")
	blob = newVStore("blob")
	return
}

func VerifC04UploadDownload() {
	vBudget(200000000)
	vUnwind(100000)
	meta, blob := vRepoStores()
	stores := vCtxStoresKind(meta, meta, blob, vChoose("storeWithCRC", 2) == 1) // plain or checksummed metadata writes
	ctx := context.Background()
	vAssert(CreateRepo(model.RepoDescriptor{Name: "r", Description: "d", Contributor: model.Contributor{Name: "n", Email: "e@x.io"}}, stores) == nil, "create-repo")
	src := newVStore("src")
	want := map[string][]byte{}
	add := func(name string, content []byte, eligible bool) {
		if vChoose("has_"+name, 2) == 1 {
			src.putRaw(name, content)
			if eligible {
				want[name] = content
			}
		}
	}
	contentA := vBytes("ca", 2)
	add("a", contentA, true)
	add("n/a copy", contentA, true) // the same content under another name (with a space): deduplicated blobs, two entries
	if _, ok := want["n/a copy"]; ok {
		if _, ok2 := want["a"]; ok2 {
			vCover("duplicated-content")
		}
	}
	add("d/b", vBytes("cb", 1), true)
	add("e", []byte{}, true)
	if vThorough() {
		// a file longer than one leaf (64): 70 bytes, first, last-of-leaf and first-of-next-leaf symbolic
		big := make([]byte, 70)
		for i := range big {
			big[i] = byte(i)
		}
		big[0], big[63], big[64] = vByte("big0", 0, 255), vByte("big63", 0, 255), vByte("big64", 0, 255)
		add("big", big, true)
	}
	add(".datamon/x", []byte("meta"), false)
	add("d/.datamon", []byte("user"), true)
	if _, ok := src.data["d/.datamon"]; ok {
		// a top-level name that merely starts like the reserved directory is an ordinary file
		src.putRaw(".datamonignore", []byte("ign"))
		want[".datamonignore"] = []byte("ign")
	}
	E := uint(vChoose("entriesPerFile", 3) + 1)
	up := NewBundle(Repo("r"), ContextStores(stores), ConsumableStore(src), Logger(zap.NewNop()),
		BundleDescriptor(model.NewBundleDescriptor(model.Message("m"), model.BundleContributor(model.Contributor{Name: "n", Email: "e@x.io"}))),
		ConcurrentFileUploads(2))
	up.BundleDescriptor.LeafSize = 64
	// the source store fails to open file a: the upload reports it, or - when told to skip such files - stores all the others
	if _, hasA := src.data["a"]; hasA {
		if mode := vChoose("sourceReadFault", 3); mode > 0 {
			src.fail = func(op, key string) error {
				if op == "get" && key == "a" {
					return errVFault
				}
				return nil
			}
			if mode == 1 {
				vCover("source-read-fault-reported")
				vAssert(implUpload(ctx, up, E, nil) != nil, "unreadable-source-file-fails-the-upload")
				return
			}
			vCover("unreadable-source-file-skipped")
			up.SkipOnError = true
			delete(want, "a")
		}
	}
	err := implUpload(ctx, up, E, nil)
	vAssert(err == nil, "upload-succeeds")
	if _, ok := src.data[".datamon/x"]; ok {
		vCover("decoy-skipped")
	}
	if _, ok := want["d/.datamon"]; ok {
		vCover("nested-datamon-kept")
	}
	if len(want) == 0 {
		vCover("empty-bundle")
	}
	if len(want) > int(E) {
		vCover("two-index-files")
	}
	nIdx := (len(want) + int(E) - 1) / int(E)
	vAssert(int(up.BundleDescriptor.BundleEntriesFileCount) == nIdx, "index-file-count")

	// download into a fresh store
	dst := newVStore("dst")
	down := NewBundle(Repo("r"), ContextStores(stores), ConsumableStore(dst), BundleID(up.BundleID), Logger(zap.NewNop()), ConcurrentFileDownloads(2), ConcurrentFilelistDownloads(2))
	err = implPublish(ctx, down, E, nil)
	vAssert(err == nil, "download-succeeds")
	vAssert(len(down.BundleEntries) == len(want), "listed-entries-match-uploaded-files")
	for name, content := range want {
		got, ok := dst.data[name]
		vAssert(ok, "uploaded-file-is-downloaded")
		if ok {
			vAssert(vBytesEqual(got, content), "downloaded-bytes-equal-uploaded-bytes")
		}
		found := false
		for _, e := range down.BundleEntries {
			if e.NameWithPath == name {
				found = true
				vAssert(e.Size == uint64(len(content)), "entry-size")
			}
		}
		vAssert(found, "entry-listed")
	}
	n := 0
	for _, k := range dst.keys {
		if !model.IsGeneratedFile(k) {
			n++
		}
	}
	vAssert(n == len(want), "nothing-else-downloaded")
}

// VerifC04Select: a filtered download and a single-file download yield exactly the selected subset;
// an explicit key list uploads exactly the listed files (missing ones skipped when asked to).
func VerifC04Select() {
	vBudget(200000000)
	vUnwind(100000)
	meta, blob := vRepoStores()
	stores := vCtxStoresAll(meta, meta, blob)
	ctx := context.Background()
	vAssert(CreateRepo(model.RepoDescriptor{Name: "r", Description: "d", Contributor: model.Contributor{Name: "n", Email: "e@x.io"}}, stores) == nil, "create-repo")
	src := newVStore("src")
	names := []string{"a", "d/b", "d/c"}
	for i, n := range names {
		src.putRaw(n, []byte{byte('0' + i), vByte("c", 0, 255)})
	}
	// explicit key list: any subset of the files, optionally a missing file and a generated path
	var keys []string
	listed := map[string]bool{}
	for _, n := range names {
		if vChoose("list_"+n, 2) == 1 {
			keys = append(keys, n)
			listed[n] = true
		}
	}
	missing := vChoose("missing", 2) == 1
	if missing {
		keys = append(keys, "nope")
	}
	if len(keys) > 0 && vChoose("repeated", 2) == 1 {
		keys = append(keys, keys[0]) // the same key listed twice: still one file
		vCover("repeated-key")
	}
	if vChoose("decoy", 2) == 1 {
		src.putRaw(".conflicts/s/a", []byte("x"))
		keys = append(keys, ".conflicts/s/a")
	}
	up := NewBundle(Repo("r"), ContextStores(stores), ConsumableStore(src), Logger(zap.NewNop()),
		BundleDescriptor(model.NewBundleDescriptor(model.Message("m"), model.BundleContributor(model.Contributor{Name: "n", Email: "e@x.io"}))),
		ConcurrentFileUploads(2), SkipMissing(true))
	up.BundleDescriptor.LeafSize = 64
	err := implUpload(ctx, up, defaultBundleEntriesPerFile, func() ([]string, error) { return keys, nil }) // PublishFile reads with the default index file size
	vAssert(err == nil, "upload-of-listed-keys-succeeds")
	if missing {
		vCover("missing-skipped")
	}
	// filtered download
	sel := map[string]bool{}
	for _, n := range names {
		sel[n] = vChoose("select_"+n, 2) == 1
	}
	single := vChoose("single", 2) == 1
	dst := newVStore("dst")
	down := NewBundle(Repo("r"), ContextStores(stores), ConsumableStore(dst), BundleID(up.BundleID), Logger(zap.NewNop()), ConcurrentFileDownloads(2), ConcurrentFilelistDownloads(2))
	if single {
		vCover("single-file")
		err = PublishFile(ctx, down, "d/b")
		if listed["d/b"] {
			vAssert(err == nil, "single-file-download-succeeds")
		} else {
			vAssert(err != nil, "single-file-download-of-unlisted-file-fails")
		}
		for _, n := range names {
			_, ok := dst.data[n]
			vAssert(ok == (n == "d/b" && listed[n]), "single-file-download-yields-exactly-that-file")
		}
		return
	}
	vCover("filtered")
	err = implPublish(ctx, down, defaultBundleEntriesPerFile, func(n string) (bool, error) { return sel[n], nil })
	vAssert(err == nil, "filtered-download-succeeds")
	vAssert(len(down.BundleEntries) == len(listed), "bundle-lists-exactly-the-listed-files")
	for i, n := range names {
		got, ok := dst.data[n]
		vAssert(ok == (listed[n] && sel[n]), "filtered-download-yields-exactly-the-selection")
		if ok {
			vAssert(len(got) == 2 && got[0] == byte('0'+i) && got[1] == src.data[n][1], "selected-file-bytes")
		}
	}
	_, ok := dst.data[".conflicts/s/a"]
	vAssert(!ok, "generated-path-never-uploaded")
	_, ok = dst.data["nope"]
	vAssert(!ok, "missing-file-not-invented")
}

// VerifC04Reassembly: the bundle's entries are reassembled from its index files by position, whatever order the
// parallel downloads complete in; an index file with the wrong number of entries is refused.
func VerifC04Reassembly() {
	vBudget(100000000)
	vUnwind(100000)
	meta := newVStore("meta")
	stores := vCtxStoresAll(meta, meta, newVStore("blob"))
	vPutRepo(meta, "r")
	const E = 2
	nFiles := vChoose("indexFiles", 3) + 1 // 1..3 index files
	lastLen := vChoose("lastLen", E) + 1   // the last one holds 1..E entries
	malformed := -1
	if nFiles >= 2 && vChoose("malformed", 2) == 1 {
		malformed = vChoose("which", nFiles-1) // a non-last index file that is short by one entry
		vCover("malformed-middle-file")
	}
	var want []string
	for i := 0; i < nFiles; i++ {
		n := E
		if i == nFiles-1 {
			n = lastLen
		}
		if i == malformed {
			n = E - 1
		}
		var es []model.BundleEntry
		for j := 0; j < n; j++ {
			name := "f" + string(rune('0'+i)) + string(rune('0'+j))
			es = append(es, model.BundleEntry{NameWithPath: name, Hash: "h", Size: uint64(vInt("size", 0, 1000))})
			want = append(want, name)
		}
		meta.putRaw(model.GetArchivePathToBundleFileList("r", vB1, uint64(i)), vYaml(model.BundleEntries{BundleEntries: es}))
	}
	meta.putRaw(model.GetArchivePathToBundle("r", vB1), vYaml(model.BundleDescriptor{ID: vB1, LeafSize: 64, Deduplication: "blake", BundleEntriesFileCount: uint64(nFiles)}))
	// each index file read is delayed by a solver-chosen number of scheduling rounds: every completion order occurs
	meta.sched = func() {
		for k := vChoose("delay", 3); k > 0; k-- {
			vYield()
		}
	}
	b := NewBundle(Repo("r"), ContextStores(stores), BundleID(vB1), Logger(zap.NewNop()), ConcurrentFilelistDownloads(3))
	err := implPublishMetadata(context.Background(), b, false, E)
	meta.sched = nil
	if malformed >= 0 {
		vAssert(err != nil, "index-file-with-a-wrong-entry-count-is-refused")
		return
	}
	vCover("reassembled")
	vAssert(err == nil, "metadata-download-succeeds")
	vAssert(len(b.BundleEntries) == len(want), "entries-are-the-concatenation-of-the-index-files")
	for i := range want {
		if i < len(b.BundleEntries) {
			vAssert(b.BundleEntries[i].NameWithPath == want[i], "entries-in-index-order-whatever-the-arrival-order")
		}
	}
}

// VerifC04Faults: one transient store fault at any store call of an upload or of a download: the operation reports
// the failure, or its result is complete - an upload that reports success downloads with every file and byte,
// a download that reports success has written every file completely.
func VerifC04Faults() {
	vBudget(900000000)
	vUnwind(300000)
	meta, blob := vRepoStores()
	stores := vCtxStoresAll(meta, meta, blob)
	ctx := context.Background()
	vAssert(CreateRepo(model.RepoDescriptor{Name: "r", Description: "d", Contributor: model.Contributor{Name: "n", Email: "e@x.io"}}, stores) == nil, "create-repo")
	big := make([]byte, 70)
	for i := range big {
		big[i] = byte(7*i + 1)
	}
	want := map[string][]byte{"a": big, "d/b": []byte("b"), "e": {}}
	src := newVStore("src")
	for _, n := range []string{"a", "d/b", "e"} {
		src.putRaw(n, want[n])
	}
	const E = 2
	newUp := func() *Bundle {
		b := NewBundle(Repo("r"), ContextStores(stores), ConsumableStore(src), Logger(zap.NewNop()),
			BundleDescriptor(model.NewBundleDescriptor(model.Message("m"), model.BundleContributor(model.Contributor{Name: "n", Email: "e@x.io"}))),
			ConcurrentFileUploads(1))
		b.BundleDescriptor.LeafSize = 64
		return b
	}
	dst := newVStore("dst")
	cr := &vCrasher{stores: []*vStore{meta, blob, src, dst}, allCalls: true, transient: true}
	cr.crashAt = vInt("faultAt", 1, 40)
	duringUpload := vChoose("faultDuring", 2) == 0
	up := newUp()
	if duringUpload {
		vCover("upload-faulted")
		cr.install()
	}
	uerr := implUpload(ctx, up, E, nil)
	if duringUpload {
		cr.revive()
		vAssume(cr.crashed)
		if uerr != nil {
			vCover("operation-failed")
			return
		}
		vCover("operation-survived-the-fault")
	} else {
		vAssert(uerr == nil, "upload-succeeds")
		vCover("download-faulted")
		cr.install()
	}
	down := NewBundle(Repo("r"), ContextStores(stores), ConsumableStore(dst), BundleID(up.BundleID), Logger(zap.NewNop()), ConcurrentFileDownloads(1), ConcurrentFilelistDownloads(1))
	derr := implPublish(ctx, down, E, nil)
	if !duringUpload {
		cr.revive()
		vAssume(cr.crashed)
		if derr != nil {
			vCover("operation-failed")
			return
		}
		vCover("operation-survived-the-fault")
	} else {
		vAssert(derr == nil, "bundle-of-an-upload-that-reported-success-downloads")
	}
	vAssert(len(down.BundleEntries) == len(want), "listed-entries-match-uploaded-files")
	for name, content := range want {
		got, ok := dst.data[name]
		vAssert(ok, "every-file-is-downloaded")
		if ok {
			vAssert(vBytesEqual(got, content), "downloaded-bytes-equal-uploaded-bytes")
		}
	}
}

// VerifC04CutTransfers: a transfer that is cut in the middle of an object - the source file during an upload, a blob
// during a download - makes the operation fail; it never yields a bundle or a file holding the truncated bytes.
func VerifC04CutTransfers() {
	vBudget(900000000)
	vUnwind(300000)
	meta, blob := vRepoStores()
	stores := vCtxStoresAll(meta, meta, blob)
	ctx := context.Background()
	vAssert(CreateRepo(model.RepoDescriptor{Name: "r", Description: "d", Contributor: model.Contributor{Name: "n", Email: "e@x.io"}}, stores) == nil, "create-repo")
	big := make([]byte, 70)
	for i := range big {
		big[i] = byte(5*i + 2)
	}
	src := newVStore("src")
	src.putRaw("a", big)
	src.putRaw("b", []byte("bb"))
	up := NewBundle(Repo("r"), ContextStores(stores), ConsumableStore(src), Logger(zap.NewNop()),
		BundleDescriptor(model.NewBundleDescriptor(model.Message("m"), model.BundleContributor(model.Contributor{Name: "n", Email: "e@x.io"}))),
		ConcurrentFileUploads(1))
	up.BundleDescriptor.LeafSize = 64
	cut := vInt("cutAfter", 0, 69)
	during := vChoose("cutDuring", 3)
	if during == 2 {
		// the transfer of the bundle descriptor or of a file list is cut during a download
		vCover("metadata-cut")
		vAssert(implUpload(ctx, up, 2, nil) == nil, "upload")
		victim := model.GetArchivePathToBundle("r", up.BundleID)
		if vChoose("metadataObject", 2) == 1 {
			victim = model.GetArchivePathToBundleFileList("r", up.BundleID, 0)
		}
		vAssume(cut < len(meta.data[victim]))
		meta.cutAfter = map[string]int{victim: cut}
		dst := newVStore("dst")
		down := NewBundle(Repo("r"), ContextStores(stores), ConsumableStore(dst), BundleID(up.BundleID), Logger(zap.NewNop()), ConcurrentFileDownloads(1), ConcurrentFilelistDownloads(1))
		vAssert(implPublish(ctx, down, 2, nil) != nil, "download-over-a-cut-metadata-transfer-fails")
		return
	}
	if during == 0 {
		vCover("source-cut")
		src.cutAfter = map[string]int{"a": cut}
		err := implUpload(ctx, up, 2, nil)
		vAssert(err != nil, "upload-of-a-cut-source-file-fails")
		_, visible := meta.data[model.GetArchivePathToBundle("r", up.BundleID)]
		vAssert(!visible, "no-bundle-becomes-visible")
		return
	}
	vAssert(implUpload(ctx, up, 2, nil) == nil, "upload")
	vCover("blob-cut")
	// cut the transfer of one of the blobs (keys in the blob store: root and leaf blobs of a, and of b)
	probe := NewBundle(Repo("r"), ContextStores(stores), BundleID(up.BundleID), Logger(zap.NewNop()))
	vAssert(implPublishMetadata(ctx, probe, false, 2) == nil, "metadata")
	hashA := ""
	for _, e := range probe.BundleEntries {
		if e.NameWithPath == "a" {
			hashA = e.Hash
		}
	}
	root, err := cafs.KeyFromString(hashA)
	vAssert(err == nil, "root-key")
	leaves, err := cafs.LeavesForHash(blob, root, 64, "")
	vAssert(err == nil && len(leaves) == 2, "leaves")
	victim := []string{root.StringWithPrefix(""), leaves[0].StringWithPrefix(""), leaves[1].StringWithPrefix("")}[vChoose("blobRole", 3)] // by role: digests differ between the hash model and the native run
	vAssume(cut < len(blob.data[victim]))
	blob.cutAfter = map[string]int{victim: cut}
	dst := newVStore("dst")
	down := NewBundle(Repo("r"), ContextStores(stores), ConsumableStore(dst), BundleID(up.BundleID), Logger(zap.NewNop()), ConcurrentFileDownloads(1), ConcurrentFilelistDownloads(1))
	derr := implPublish(ctx, down, 2, nil)
	vAssert(derr != nil, "download-over-a-cut-blob-transfer-fails")
	for name, want := range map[string][]byte{"a": big, "b": []byte("bb")} {
		if got, ok := dst.data[name]; ok {
			vAssert(len(got) <= len(want) && vBytesEqual(got, want[:len(got)]), "destination-holds-no-altered-byte")
		}
	}
}
