//verif:pkg pkg/core
//verif:use store,corehelp
//verif:assume histories of 2 (thorough: 3) operations, each a label assignment or deletion chosen by the solver over labels {v1, v1-rc}, repositories {r, r2} and bundles {B1, B2}; Label values are reused across operations (as a caller holding a Label may do); stores are the in-memory model, yaml.v2 round-trips opaque documents
//verif:assume label names in VerifC08Names: 1..2 arbitrary bytes
//verif:cover VerifC08History reassigned deleted-then-get same-label-two-repos probe-fault-on-a-live-label
//verif:cover VerifC08Names accepted-and-listed
//verif:cover VerifC08RepoRecreate labels-without-bundles
package core

import (
	"context"

	"github.com/oneconcern/datamon/pkg/core/status"
	"github.com/oneconcern/datamon/pkg/errors"
	"github.com/oneconcern/datamon/pkg/model"
	"go.uber.org/zap"
)

// VerifC08History: after any history of assignments and deletions, get and list agree with the last assignment,
// and an operation touches nothing but the operated label's own object.
func VerifC08History() {
	vBudget(200000000)
	vUnwind(100000)
	meta := newVStore("meta")
	vmeta := newVStore("vmeta")
	stores := vCtxStoresKind(meta, vmeta, newVStore("blob"), vChoose("storeWithCRC", 2) == 1)
	repos := []string{"r", "r2"}
	labels := []string{"v1", "v1-rc"}
	bundles := []string{vB1, vB2}
	for _, r := range repos {
		vPutRepo(meta, r)
		for _, b := range bundles {
			vPutBundle(meta, r, b, 1, true)
		}
	}
	ctx := context.Background()
	model_ := map[string]string{} // repo/label -> bundle
	held := map[string]*Label{}   // Label values are kept and reused by the caller
	nOps := 2
	if vThorough() {
		nOps = 3
	}
	sets := map[string]int{}
	for op := 0; op < nOps; op++ {
		r := repos[vChoose("repo", 2)]
		l := labels[vChoose("label", 2)]
		key := r + "/" + l
		beforeMeta, beforeV := vSnapshot(meta), vSnapshot(vmeta)
		objKey := model.GetArchivePathToLabel(r, l)
		if vChoose("kind", 3) < 2 {
			b := bundles[vChoose("bundle", 2)]
			lab := held[l]
			if lab == nil {
				lab = NewLabel(LabelDescriptor(model.NewLabelDescriptor(model.LabelName(l), model.LabelContributor(model.Contributor{Name: "n", Email: "e@x.io"}))))
				held[l] = lab
			}
			bd := NewBundle(Repo(r), ContextStores(stores), BundleID(b), Logger(zap.NewNop()))
			err := lab.UploadDescriptor(ctx, bd)
			vAssert(err == nil, "set-label-succeeds")
			model_[key] = b
			sets[key]++
			if sets[key] > 1 {
				vCover("reassigned")
			}
		} else {
			err := DeleteLabel(r, stores, l)
			_, had := model_[key]
			vAssert((err == nil) == had, "delete-succeeds-iff-label-exists")
			delete(model_, key)
		}
		// nothing but the operated label's object changed
		for k, v := range beforeMeta {
			nv, ok := meta.data[k]
			vAssert(ok && string(nv) == v, "metadata-store-untouched-by-label-operations")
		}
		vAssert(len(meta.data) == len(beforeMeta), "no-metadata-object-created")
		for k, v := range beforeV {
			if k == objKey {
				continue
			}
			nv, ok := vmeta.data[k]
			vAssert(ok && string(nv) == v, "other-labels-untouched")
		}
		for k := range vmeta.data {
			if k != objKey {
				_, ok := beforeV[k]
				vAssert(ok, "no-other-label-object-created")
			}
		}
	}
	if _, a := model_["r/v1"]; a {
		if _, b := model_["r2/v1"]; b {
			vCover("same-label-two-repos")
		}
	}
	// observers
	for _, r := range repos {
		n := 0
		for _, l := range labels {
			want, live := model_[r+"/"+l]
			if live {
				n++
			}
			lab := NewLabel(LabelDescriptor(model.NewLabelDescriptor(model.LabelName(l))))
			bd := NewBundle(Repo(r), ContextStores(stores), Logger(zap.NewNop()))
			err := lab.DownloadDescriptor(ctx, bd, true)
			if live {
				vAssert(err == nil, "get-live-label-succeeds")
				vAssert(lab.Descriptor.BundleID == want, "label-resolves-to-last-assigned-bundle")
			} else {
				vAssert(err != nil && errors.Is(err, status.ErrNotFound), "get-deleted-or-unset-label-is-not-found")
				if sets[r+"/"+l] > 0 {
					vCover("deleted-then-get")
				}
			}
		}
		// a store fault while probing a live label is reported as such: the label is never declared absent
		for _, l := range labels {
			if _, live := model_[r+"/"+l]; live {
				vmeta.fail = func(op, key string) error {
					if op == "has" {
						return errVFault
					}
					return nil
				}
				lab := NewLabel(LabelDescriptor(model.NewLabelDescriptor(model.LabelName(l))))
				err := lab.DownloadDescriptor(ctx, NewBundle(Repo(r), ContextStores(stores), Logger(zap.NewNop())), true)
				vmeta.fail = nil
				vCover("probe-fault-on-a-live-label")
				vAssert(err == nil || !errors.Is(err, status.ErrNotFound), "store-fault-is-not-reported-as-label-not-found")
				// the transfer of the label descriptor is cut after its first byte: the get fails, it does not resolve to anything
				vmeta.cutAfter = map[string]int{model.GetArchivePathToLabel(r, l): 1}
				lab2 := NewLabel(LabelDescriptor(model.NewLabelDescriptor(model.LabelName(l))))
				err = lab2.DownloadDescriptor(ctx, NewBundle(Repo(r), ContextStores(stores), Logger(zap.NewNop())), true)
				vmeta.cutAfter = nil
				vAssert(err != nil, "get-over-a-cut-transfer-fails")
				break
			}
		}
		got, err := ListLabels(r, stores)
		vAssert(err == nil, "list-labels-succeeds")
		vAssert(len(got) == n, "list-returns-exactly-the-live-labels")
		for _, g := range got {
			want, live := model_[r+"/"+g.Name]
			vAssert(live && g.BundleID == want, "listed-label-is-live-with-its-last-bundle")
		}
	}
}

// VerifC08Names: any label name the API accepts can afterwards be listed and resolved.
func VerifC08Names() {
	vBudget(200000000)
	vUnwind(100000)
	meta := newVStore("meta")
	vmeta := newVStore("vmeta")
	stores := vCtxStoresAll(meta, vmeta, newVStore("blob"))
	vPutRepo(meta, "r")
	vPutBundle(meta, "r", vB1, 1, true)
	n := vChoose("nameLen", 2) + 1
	name := vString("name", n)
	hasSlash := false
	for i := 0; i < n; i++ {
		hasSlash = vOr(hasSlash, name[i] == '/')
	}
	ctx := context.Background()
	lab := NewLabel(LabelDescriptor(model.NewLabelDescriptor(model.LabelName(name))))
	bd := NewBundle(Repo("r"), ContextStores(stores), BundleID(vB1), Logger(zap.NewNop()))
	err := lab.UploadDescriptor(ctx, bd)
	if err != nil {
		return // refused: nothing to show
	}
	vCover("accepted-and-listed")
	// known finding C08-F1: names containing '/' are accepted (nothing calls ValidateLabel) but produce keys
	// that the label listing cannot parse
	got, err := ListLabels("r", stores)
	vAssertR(err == nil, "accepted-name-can-be-listed", "C08-F1", hasSlash)
	if err == nil {
		vAssertR(len(got) == 1, "accepted-name-is-listed-once", "C08-F1", hasSlash)
		if len(got) == 1 {
			vAssertR(vAnd(vStrEqual(got[0].Name, name), got[0].BundleID == vB1), "listed-under-its-name", "C08-F1", hasSlash)
		}
	}
	l2 := NewLabel(LabelDescriptor(model.NewLabelDescriptor(model.LabelName(name))))
	err = l2.DownloadDescriptor(ctx, NewBundle(Repo("r"), ContextStores(stores), Logger(zap.NewNop())), true)
	vAssert(err == nil && l2.Descriptor.BundleID == vB1, "accepted-name-resolves")
}

// VerifC08RepoRecreate: deleting a repository deletes its labels; a repository created again under the same name
// starts without labels (a label never resolves to an assignment made in a deleted repository).
func VerifC08RepoRecreate() {
	vBudget(200000000)
	vUnwind(100000)
	meta := newVStore("meta")
	vmeta := newVStore("vmeta")
	stores := vCtxStoresAll(meta, vmeta, newVStore("blob"))
	vPutRepo(meta, "r")
	vPutRepo(meta, "r2")
	withBundle := vChoose("repoHasBundle", 2) == 1
	if withBundle {
		vPutBundle(meta, "r", vB1, 1, true)
	} else {
		vCover("labels-without-bundles")
	}
	ctx := context.Background()
	set := func(repo, name, bundle string) {
		lab := NewLabel(LabelDescriptor(model.NewLabelDescriptor(model.LabelName(name), model.LabelContributor(model.Contributor{Name: "n", Email: "e@x.io"}))))
		vAssert(lab.UploadDescriptor(ctx, NewBundle(Repo(repo), ContextStores(stores), BundleID(bundle), Logger(zap.NewNop()))) == nil, "set-label")
	}
	set("r", "v1", vB1)
	set("r2", "v1", vB2)
	vAssert(DeleteRepo("r", stores) == nil, "delete-repo")
	vAssert(CreateRepo(model.RepoDescriptor{Name: "r", Description: "again", Contributor: model.Contributor{Name: "n", Email: "e@x.io"}}, stores) == nil, "create-again")
	got, err := ListLabels("r", stores)
	vAssert(err == nil && len(got) == 0, "recreated-repository-has-no-labels")
	lab := NewLabel(LabelDescriptor(model.NewLabelDescriptor(model.LabelName("v1"))))
	err = lab.DownloadDescriptor(ctx, NewBundle(Repo("r"), ContextStores(stores), Logger(zap.NewNop())), true)
	vAssert(err != nil && errors.Is(err, status.ErrNotFound), "label-of-a-deleted-repository-does-not-resolve")
	other, err := ListLabels("r2", stores)
	vAssert(err == nil && len(other) == 1 && other[0].BundleID == vB2, "labels-of-other-repositories-untouched")
}
