//verif:pkg pkg/core
//verif:use store,corehelp,diamondhelp
//verif:assume end-to-end diamond through the real code as the CLI drives it (CreateDiamond, NewSplit + CreateSplit + Split.Upload, GetDiamond + NewDiamond + Commit with the real split iterator and index upload); compared with a plain Upload of the same files into the same repository
//verif:cover VerifC11SingleSplit with-empty-split-first plain-equals-diamond
//verif:cover VerifC11PackStamps two-entries
//verif:assume commit under faults: two completed splits (s1: a, c; s2: b, c) committed with a solver-chosen listing page size 1..7 and optionally one transient store fault at a solver-chosen store call of the commit (reads and listings included)
//verif:cover VerifC11CommitFaults faulted-commit-failed page-size-1 no-fault
//verif:cover VerifC11CutIndexRead cut
package core

import (
	"context"

	"github.com/oneconcern/datamon/pkg/model"
	"go.uber.org/zap"
	"gopkg.in/yaml.v2"
)

// VerifC11SingleSplit: a diamond with a single (non-empty) split yields the same bundle as a plain upload of the
// same files; a completed split without files changes nothing, wherever it comes in the split order.
func VerifC11SingleSplit() {
	vBudget(600000000)
	vUnwind(300000)
	w := vNewDiamondWorld()
	stores := vCtxStoresAll(w.meta, w.vmeta, w.blob)
	ctx := context.Background()
	files := map[string]string{}
	var order []string
	for _, n := range []string{"a", "d/b", "e"} {
		if vChoose("has_"+n, 2) == 1 {
			files[n] = "content-of-" + n
			order = append(order, n)
		}
	}
	vAssume(len(order) > 0)
	emptyAt := vChoose("emptySplit", 3) // 0: none, 1: an empty split before, 2: after
	if emptyAt == 1 {
		vCover("with-empty-split-first")
		vNextSecond()
		vAssert(w.splitAdd("s0", map[string]string{}, nil) == nil, "empty-split")
	}
	vNextSecond()
	vAssert(w.splitAdd("s1", files, order) == nil, "split")
	if emptyAt == 2 {
		vNextSecond()
		vAssert(w.splitAdd("s2", map[string]string{}, nil) == nil, "empty-split")
	}
	vNextSecond()
	id, err := w.commit(model.ConflictMode([]model.ConflictMode{model.EnableConflicts, model.IgnoreConflicts, model.ForbidConflicts, model.EnableCheckpoints}[vChoose("mode", 4)]))
	vAssert(err == nil, "commit-succeeds")
	got, e := w.entries(id)
	vAssert(e == nil, "bundle-readable")
	// the plain upload of the same files
	src := newVStore("src")
	for _, n := range order {
		src.putRaw(n, []byte(files[n]))
	}
	pb := NewBundle(Repo("r"), ContextStores(stores), ConsumableStore(src), Logger(zap.NewNop()),
		BundleDescriptor(model.NewBundleDescriptor(model.Message("m"), model.BundleContributor(vContrib()))), ConcurrentFileUploads(2))
	pb.BundleDescriptor.LeafSize = 64
	vNextSecond()
	vAssert(Upload(ctx, pb) == nil, "plain-upload")
	want, e2 := w.entries(pb.BundleID)
	vAssert(e2 == nil, "plain-bundle-readable")
	vCover("plain-equals-diamond")
	vAssert(len(got) == len(want) && len(want) == len(order), "single-split-diamond-lists-the-same-files-as-a-plain-upload")
	for n, h := range want {
		vAssert(got[n] == h, "same-content-keys-as-a-plain-upload")
	}
}

// VerifC11PackStamps: the index writer stamps each entry with the time it was uploaded (later entries later).
func VerifC11PackStamps() {
	vBudget(600000000)
	vUnwind(300000)
	w := vNewDiamondWorld()
	vNextSecond()
	vAssert(w.splitAdd("s1", map[string]string{"a": "1", "b": "2"}, []string{"a", "b"}) == nil, "split")
	n := 0
	for k, v := range w.vmeta.data {
		if len(k) > 5 && k[len(k)-5:] == ".yaml" && len(k) > 20 && containsStr(k, "/bundle-files-") {
			var be model.BundleEntries
			vAssert(yaml.Unmarshal(v, &be) == nil, "index-file-readable")
			for i, e := range be.BundleEntries {
				vAssert(!e.Timestamp.IsZero(), "every-entry-carries-an-upload-time")
				if i > 0 {
					vCover("two-entries")
					vAssert(e.Timestamp.After(be.BundleEntries[i-1].Timestamp), "each-entry-is-stamped-at-its-own-upload")
				}
				n++
			}
		}
	}
	vAssert(n == 2, "both-entries-indexed")
}

func containsStr(s, sub string) bool {
	for i := 0; i+len(sub) <= len(s); i++ {
		if s[i:i+len(sub)] == sub {
			return true
		}
	}
	return false
}

// VerifC11CommitFaults: a commit over two completed splits, listing them with any page size and hit by at most one
// transient store fault: whenever it reports success the bundle is the full merge of both splits (the later split
// wins the shared path, the loser is kept under .conflicts).
func VerifC11CommitFaults() {
	vBudget(900000000)
	vUnwind(300000)
	w := vNewDiamondWorld()
	vNextSecond()
	vAssert(w.splitAdd("s1", map[string]string{"a": "s1-a", "c": "s1-c"}, []string{"a", "c"}) == nil, "split")
	vNextSecond()
	vAssert(w.splitAdd("s2", map[string]string{"b": "s2-b", "c": "s2-c"}, []string{"b", "c"}) == nil, "split")
	page := vInt("pageSize", 1, 7)
	if page == 1 {
		vCover("page-size-1")
	}
	cr := &vCrasher{stores: []*vStore{w.meta, w.vmeta, w.blob}, allCalls: true, transient: true}
	cr.crashAt = vInt("faultAt", 0, 24)
	cr.install()
	vNextSecond()
	d, err := w.committer(model.EnableConflicts)
	if err == nil {
		err = d.Commit(BatchSize(page))
	}
	cr.revive()
	if cr.crashAt > 0 && !cr.crashed {
		vAssume(false)
	}
	if !cr.crashed {
		vCover("no-fault")
		vAssert(err == nil, "commit-succeeds")
	}
	if err != nil {
		vCover("faulted-commit-failed")
		return
	}
	got, e := w.entries(d.BundleID)
	vAssert(e == nil, "bundle-readable")
	vAssert(vSameKeys(got, map[string]bool{"a": true, "b": true, "c": true, ".conflicts/s1/c": true}), "bundle-is-the-full-merge-of-both-splits")
	if e == nil {
		vAssert(got["a"] == w.keyOf("s1-a") && got["b"] == w.keyOf("s2-b"), "files-carry-their-splits-content")
		vAssert(got["c"] == w.keyOf("s2-c") && got[".conflicts/s1/c"] == w.keyOf("s1-c"), "latest-split-wins-and-the-loser-is-kept")
	}
}

// VerifC11CutIndexRead: the transfer of a split's file list (or of its completion record) is cut while the commit
// reads it: the commit fails; it never publishes a bundle built from the truncated document.
func VerifC11CutIndexRead() {
	vBudget(900000000)
	vUnwind(300000)
	w := vNewDiamondWorld()
	vNextSecond()
	vAssert(w.splitAdd("s1", map[string]string{"a": "s1-a", "c": "s1-c"}, []string{"a", "c"}) == nil, "split")
	// the victim: s1's first file list, or its split-done record
	victim := ""
	for _, k := range w.vmeta.keys {
		isList := containsStr(k, "/splits/s1/") && containsStr(k, "/bundle-files-")
		isDone := k == model.GetArchivePathToFinalSplit("r", vDiamond, "s1")
		if (vChoose("victim", 2) == 0 && isList) || (isDone && victim == "") {
			victim = k
		}
	}
	vAssert(victim != "", "victim")
	n := len(w.vmeta.data[victim])
	cut := vInt("cutAfter", 0, 40)
	vAssume(cut < n)
	vCover("cut")
	w.vmeta.cutAfter = map[string]int{victim: cut}
	before := len(w.bundleIDs())
	_, err := w.commit(model.EnableConflicts)
	w.vmeta.cutAfter = nil
	vAssert(err != nil, "commit-over-a-cut-metadata-read-fails")
	vAssert(len(w.bundleIDs()) == before, "no-bundle-is-published")
}
