//verif:pkg pkg/core
//verif:use store,corehelp
//verif:assume shapes: (0) 2 splits x paths {a, d/b} or {.env, env}, per (split, path) absent or present with a symbolic 1-byte hash, symbolic pairwise distinct upload seconds; (1) 3 splits x path a, all present, split k uploaded at second k; (2, thorough) 3 splits x 2 paths with symbolic presence and seconds. Upload times are whole seconds without monotonic clock reading, as after YAML decoding
//verif:assume arrival order: each split's file list is one index file (shape 2: one index file per path); the index files are handed to the real downloader in a solver-chosen permutation with filelist concurrency 1, so arrival order = that permutation
//verif:assume yaml.v2 modelled as round-tripping opaque documents; the metadata store is the in-memory model
//verif:assume when several losing splits uploaded the same content for a path, the oracle accepts that content being kept under any one of them (the statement says "every other distinct version")
//verif:cover VerifC11Merge conflict-kept newer-arrives-last older-arrives-last forbid-fails identical-no-conflict dot-file-names
package core

import (
	"sync"
	"time"

	"github.com/oneconcern/datamon/pkg/model"
	"go.uber.org/zap"
	"gopkg.in/yaml.v2"
)

const (
	vC11Diamond = "1c2PPkGSFwzlGuXIzGvRlK5XYyG"
	vC11Gen     = "0ujtsYcgvSTl8PAuAdqWYSMnLOv"
)

type vOneIndex struct {
	pth  string
	done bool
}

func (o *vOneIndex) Next() string {
	if o.done {
		return ""
	}
	o.done = true
	return o.pth
}

type vArrivalItem struct{ id, pth string }

// vArrival hands out (split, index file) pairs one by one in a chosen order.
type vArrival struct {
	items []vArrivalItem
	i     int
}

func (a *vArrival) Next() (string, indexIterator) {
	if a.i >= len(a.items) {
		return "", nil
	}
	a.i++
	it := a.items[a.i-1]
	return it.id, &vOneIndex{pth: it.pth}
}

// vPermute returns a solver-chosen permutation of 0..n-1.
func vPermute(tag string, n int) []int {
	rest := make([]int, n)
	for i := range rest {
		rest[i] = i
	}
	var out []int
	for len(rest) > 0 {
		k := vChoose(tag, len(rest))
		out = append(out, rest[k])
		rest = append(rest[:k], rest[k+1:]...)
	}
	return out
}

func VerifC11Merge() {
	vBudget(40000000)
	// shape 0: 2 splits x 2 paths, presence and upload seconds symbolic, one index file per split
	// shape 1: 3 splits x 1 path, all present, split k uploaded at second k, every arrival order
	// shape 2 (thorough): 3 splits x 2 paths, presence and seconds symbolic, one index file per (split, path)
	nshapes := 2
	if vThorough() {
		nshapes = 3
	}
	shape := vChoose("shape", nshapes)
	S := 2
	paths := []string{"a", "d/b"}
	if shape >= 1 {
		S = 3
	}
	if shape == 1 {
		paths = paths[:1]
	}
	if shape == 0 && vChoose("dotNames", 2) == 1 {
		// a dot file and its undotted twin: their conflict copies must stay apart
		paths = []string{".env", "env"}
		vCover("dot-file-names")
	}
	perPathBatches := shape == 2
	splitIDs := []string{"s1", "s2", "s3"}[:S]
	modes := []model.ConflictMode{model.IgnoreConflicts, model.EnableConflicts, model.EnableCheckpoints, model.ForbidConflicts}
	mode := modes[vChoose("mode", 4)]

	// upload second of each split, pairwise distinct
	ts := make([]int64, S)
	for s := 0; s < S; s++ {
		if shape == 1 {
			ts[s] = int64(s + 1)
			continue
		}
		ts[s] = vI64("t", 1, int64(S))
		for q := 0; q < s; q++ {
			vAssume(ts[s] != ts[q])
		}
	}
	present := make([][]bool, S)
	hb := make([][]byte, S)
	meta := newVStore("vmeta")
	var items []vArrivalItem
	for s := 0; s < S; s++ {
		present[s] = make([]bool, len(paths))
		hb[s] = make([]byte, len(paths))
		var batches [][]model.BundleEntry
		var all []model.BundleEntry
		for p := range paths {
			if shape == 1 || vChoose("present", 2) == 1 {
				present[s][p] = true
				hb[s][p] = vByte("hash", 'A', 'C')
				e := model.BundleEntry{NameWithPath: paths[p], Hash: string([]byte{hb[s][p]}), Size: 1, Timestamp: time.Unix(ts[s], 0)}
				all = append(all, e)
				if perPathBatches {
					batches = append(batches, []model.BundleEntry{e})
				}
			}
		}
		if !perPathBatches {
			batches = [][]model.BundleEntry{all}
		}
		for bi, b := range batches {
			buf, err := yaml.Marshal(model.BundleEntries{BundleEntries: b})
			vAssert(err == nil, "marshal")
			pth := model.GetArchivePathToSplitFileList("r", vC11Diamond, splitIDs[s], vC11Gen, uint64(bi))
			meta.putRaw(pth, buf)
			items = append(items, vArrivalItem{splitIDs[s], pth})
		}
	}
	// arrival order
	perm := vPermute("arrival", len(items))
	arr := &vArrival{}
	for _, k := range perm {
		arr.items = append(arr.items, items[k])
	}

	d := NewDiamond("r", vCtxStoresAll(meta, meta, newVStore("blob")),
		DiamondDescriptor(model.NewDiamondDescriptor(model.DiamondID(vC11Diamond), model.DiamondMode(mode))),
		DiamondLogger(zap.NewNop()))
	d.splitIndexer = &fileIndex{
		metaObject:     defaultMetaObject(meta),
		indexPather:    arr,
		output:         make(chan bundleEntriesRes, 4),
		concurrency:    1,
		l:              zap.NewNop(),
		entriesPerFile: 1000,
	}
	filePackedC := make(chan filePacked, 2)
	errorC := make(chan errorHit)
	doneOkC := make(chan struct{})
	var wg sync.WaitGroup
	wg.Add(1)
	go d.mergeSplits(filePackedC, errorC, doneOkC, &wg)
	var out []filePacked
	var gotErr error
	for done := false; !done; {
		select {
		case f, ok := <-filePackedC:
			if !ok {
				done = true
				break
			}
			out = append(out, f)
		case e := <-errorC:
			gotErr = e.error
			done = true
		}
	}

	// ---- oracle, written from the statement ----
	// winner per path: the present version with the latest upload second
	isWinner := func(s, p int) bool { // symbolic
		w := true
		for q := 0; q < S; q++ {
			if q != s && present[q][p] {
				w = vAnd(w, ts[s] > ts[q])
			}
		}
		return w
	}
	winnerHash := func(p int) byte {
		var h byte
		for s := 0; s < S; s++ {
			if present[s][p] {
				h = vIteByte(isWinner(s, p), hb[s][p], h)
			}
		}
		return h
	}
	disagree := false // two splits uploaded different content for some path
	for p := range paths {
		for s := 0; s < S; s++ {
			for q := 0; q < s; q++ {
				if present[s][p] && present[q][p] {
					disagree = vOr(disagree, hb[s][p] != hb[q][p])
				}
			}
		}
	}
	if mode == model.ForbidConflicts {
		if gotErr != nil {
			vCover("forbid-fails")
			vAssert(disagree, "forbid-mode-fails-only-on-a-real-conflict")
			return
		}
		vAssert(vNot(disagree), "forbid-mode-fails-on-every-conflict")
	} else {
		vAssert(gotErr == nil, "merge-succeeds")
		if gotErr != nil {
			return
		}
	}
	find := func(name string) (filePacked, bool) {
		for _, f := range out {
			if f.name == name {
				return f, true
			}
		}
		return filePacked{}, false
	}
	// no name twice
	for i := range out {
		for j := 0; j < i; j++ {
			vAssert(out[i].name != out[j].name, "entry-listed-once")
		}
	}
	explained := 0
	for p := range paths {
		any := false
		for s := 0; s < S; s++ {
			any = any || present[s][p]
		}
		f, ok := find(paths[p])
		vAssert(ok == any, "main-tree-has-exactly-the-uploaded-paths")
		if !ok {
			continue
		}
		explained++
		wh := winnerHash(p)
		vAssert(len(f.hash) == 1 && f.hash[0] == wh, "main-tree-holds-the-latest-version")
		for s := 0; s < S; s++ {
			var name string
			switch mode {
			case model.EnableConflicts:
				name = ".conflicts/" + splitIDs[s] + "/" + paths[p]
			case model.EnableCheckpoints:
				name = ".checkpoints/" + splitIDs[s] + "/" + paths[p]
			default:
				continue
			}
			cf, kept := find(name)
			if kept {
				explained++
				vCover("conflict-kept")
				vAssert(present[s][p], "kept-version-was-uploaded-by-that-split")
				if present[s][p] {
					vAssert(len(cf.hash) == 1 && cf.hash[0] == hb[s][p], "kept-version-has-that-splits-content")
					// known finding C11-F1: a version displaced by a different, newer one stays filed as a
					// conflict even when the final winner (arriving later still) has the same content again
					displaced := false
					for q := 0; q < S; q++ {
						if q != s && present[q][p] {
							displaced = vOr(displaced, vAnd(hb[q][p] != hb[s][p], ts[q] > ts[s]))
						}
					}
					vAssertR(hb[s][p] != wh, "content-identical-to-the-winner-is-not-a-conflict", "C11-F1", displaced)
				}
			} else if present[s][p] {
				// a losing distinct version must be kept (under this split, or under another losing split with the same content)
				keptElsewhere := false
				for q := 0; q < S; q++ {
					if q == s || !present[q][p] {
						continue
					}
					var qn string
					if mode == model.EnableConflicts {
						qn = ".conflicts/" + splitIDs[q] + "/" + paths[p]
					} else {
						qn = ".checkpoints/" + splitIDs[q] + "/" + paths[p]
					}
					if _, ok := find(qn); ok {
						keptElsewhere = vOr(keptElsewhere, hb[q][p] == hb[s][p])
					}
				}
				vAssert(vOr(hb[s][p] == wh, keptElsewhere), "every-other-distinct-version-is-kept")
				if hb[s][p] == wh {
					vCover("identical-no-conflict")
				}
			}
		}
	}
	vAssert(explained == len(out), "no-other-entries-in-the-bundle")
	// conflict / checkpoint flags
	if mode == model.EnableConflicts {
		vAssert(d.DiamondDescriptor.HasConflicts == disagree, "has-conflicts-flag")
		vAssert(!d.DiamondDescriptor.HasCheckpoints, "no-checkpoints-flag-in-conflicts-mode")
	}
	if mode == model.EnableCheckpoints {
		vAssert(d.DiamondDescriptor.HasCheckpoints == disagree, "has-checkpoints-flag")
		vAssert(!d.DiamondDescriptor.HasConflicts, "no-conflicts-flag-in-checkpoints-mode")
	}
	if mode == model.IgnoreConflicts {
		vAssert(!d.DiamondDescriptor.HasCheckpoints && !d.DiamondDescriptor.HasConflicts, "no-flags-in-ignore-mode")
	}
	// which order did the versions of path 0 arrive in?
	if S >= 2 && present[0][0] && present[1][0] {
		pos := map[string]int{}
		for i, it := range arr.items {
			if _, ok := pos[it.id]; !ok {
				pos[it.id] = i
			}
		}
		if (ts[0] > ts[1]) == (pos["s1"] > pos["s2"]) {
			vCover("newer-arrives-last")
		} else {
			vCover("older-arrives-last")
		}
	}
}
