//verif:pkg pkg/model
//verif:assume names are non-empty and contain no '/' byte (VerifC20Validators decides that the validators guarantee this); name lengths 1..3 bytes, all byte values symbolic
//verif:assume diamond / generation / bundle ids are concrete well-formed ksuids (ksuid base62 parsing is division-heavy); file-list indices drawn from a boundary list {0,1,9,10,999,1000,2^32,2^63-1,2^63,2^64-1}
//verif:assume regexp: compiled program of the pattern literal found in the code, unrolled as an NFA over the subject bytes; symbolic subject bytes are ASCII
//verif:assume descriptor YAML round trip is NOT decided (yaml.v2 is reflection-driven third-party code, a stub in this framework)
//verif:cover VerifC20ArchivePaths repo label bundle filelist context diamond split splitfilelist
//verif:cover VerifC20Generated len16
//verif:cover VerifC20Validators two-byte-rune
//verif:cover VerifC20ConsumablePaths filelist descriptor
package model


const (
	vKsuid1 = "1c2PPkGSFwzlGuXIzGvRlK5XYyG"
	vKsuid2 = "0ujtsYcgvSTl8PAuAdqWYSMnLOv"
)

func vName(tag string) string {
	n := vChoose(tag+"Len", 3) + 1
	s := vString(tag, n)
	for i := 0; i < n; i++ {
		vAssume(s[i] != '/')
	}
	return s
}

var vIndices = []uint64{0, 1, 9, 10, 999, 1000, 1 << 32, 1<<63 - 1, 1 << 63, 1<<64 - 1}

func vIndex() uint64 { return vIndices[vChoose("index", len(vIndices))] }

// VerifC20ArchivePaths: parse(build(x)) == x for every kind of metadata path.
func VerifC20ArchivePaths() {
	vBudget(8000000)
	repo := vName("repo")
	switch vChoose("kind", 8) {
	case 0:
		vCover("repo")
		c, err := GetArchivePathComponents(GetArchivePathToRepoDescriptor(repo))
		vAssert(err == nil, "repo-path-parses")
		vAssert(vStrEqual(c.Repo, repo), "repo-round-trips")
		vAssert(c.ArchiveFileName == "repo.yaml" && c.BundleID == "" && c.LabelName == "" && c.DiamondID == "", "repo-other-fields")
	case 1:
		vCover("label")
		label := vName("label")
		c, err := GetArchivePathComponents(GetArchivePathToLabel(repo, label))
		vAssert(err == nil, "label-path-parses")
		vAssert(vAnd(vStrEqual(c.Repo, repo), vStrEqual(c.LabelName, label)), "label-round-trips")
		vAssert(c.ArchiveFileName == "label.yaml" && c.BundleID == "", "label-other-fields")
	case 2:
		vCover("bundle")
		c, err := GetArchivePathComponents(GetArchivePathToBundle(repo, vKsuid1))
		vAssert(err == nil, "bundle-path-parses")
		vAssert(vStrEqual(c.Repo, repo), "bundle-repo-round-trips")
		vAssert(c.BundleID == vKsuid1 && c.ArchiveFileName == "bundle.yaml", "bundle-fields")
	case 3:
		vCover("filelist")
		idx := vIndex()
		p := GetArchivePathToBundleFileList(repo, vKsuid1, idx)
		c, err := GetArchivePathComponents(p)
		vAssert(err == nil, "filelist-path-parses")
		vAssert(vStrEqual(c.Repo, repo), "filelist-repo-round-trips")
		vAssert(c.BundleID == vKsuid1, "filelist-bundle-id")
		other := GetArchivePathToBundleFileList(repo, vKsuid1, vIndices[(vChoose("index2", len(vIndices)))])
		vObserve("p", len(p))
		_ = other
	case 4:
		vCover("context")
		ctx := vName("context")
		vAssume(vAnd(ctx[0] != '.', true)) // path.Join cleans "." and ".." (not valid context names)
		c, err := GetArchivePathComponents(GetPathToContext(ctx))
		vAssert(err == nil, "context-path-parses")
		vAssert(vStrEqual(c.Context, ctx), "context-round-trips")
	case 5:
		vCover("diamond")
		final := vBool("final")
		var p string
		if final {
			p = GetArchivePathToFinalDiamond(repo, vKsuid1)
		} else {
			p = GetArchivePathToInitialDiamond(repo, vKsuid1)
		}
		c, err := GetArchivePathComponents(p)
		vAssert(err == nil, "diamond-path-parses")
		vAssert(vStrEqual(c.Repo, repo), "diamond-repo-round-trips")
		vAssert(c.DiamondID == vKsuid1 && c.SplitID == "" && c.IsFinalState == final, "diamond-fields")
	case 6:
		vCover("split")
		split := vName("split")
		final := vBool("final")
		var p string
		if final {
			p = GetArchivePathToFinalSplit(repo, vKsuid1, split)
		} else {
			p = GetArchivePathToInitialSplit(repo, vKsuid1, split)
		}
		c, err := GetArchivePathComponents(p)
		vAssert(err == nil, "split-path-parses")
		vAssert(vAnd(vStrEqual(c.Repo, repo), vStrEqual(c.SplitID, split)), "split-round-trips")
		vAssert(c.DiamondID == vKsuid1 && c.IsFinalState == final && c.GenerationID == "", "split-fields")
	case 7:
		vCover("splitfilelist")
		split := vName("split")
		idx := vIndex()
		c, err := GetArchivePathComponents(GetArchivePathToSplitFileList(repo, vKsuid1, split, vKsuid2, idx))
		vAssert(err == nil, "split-filelist-path-parses")
		vAssert(vAnd(vStrEqual(c.Repo, repo), vStrEqual(c.SplitID, split)), "split-filelist-round-trips")
		vAssert(c.DiamondID == vKsuid1 && c.GenerationID == vKsuid2, "split-filelist-fields")
	}
}

// VerifC20ConsumablePaths: the consumable-store metadata paths and their inverse, for every index.
func VerifC20ConsumablePaths() {
	vBudget(8000000)
	if vChoose("kind", 2) == 0 {
		vCover("descriptor")
		p := GetConsumablePathToBundle(vKsuid1) // panics if its own inverse disagrees
		info, err := GetConsumableStorePathMetadata(p)
		vAssert(err == nil && info.Type == ConsumableStorePathTypeDescriptor && info.BundleID == vKsuid1, "descriptor-round-trips")
	} else {
		vCover("filelist")
		idx := vIndex()
		p := GetConsumablePathToBundleFileList(vKsuid1, idx) // panics if its own inverse disagrees
		info, err := GetConsumableStorePathMetadata(p)
		vAssert(err == nil && info.Type == ConsumableStorePathTypeFileList && info.BundleID == vKsuid1 && info.Index == idx, "filelist-round-trips")
	}
}

// ---- generated-file recognition -------------------------------------------

func vEqAt(s string, off int, lit string) bool {
	if off+len(lit) > len(s) {
		return false
	}
	r := true
	for i := 0; i < len(lit); i++ {
		r = vAnd(r, s[off+i] == lit[i])
	}
	return r
}

// vSpecGenerated: after an optional leading "./" or "/", the first path
// component is .datamon, .conflicts or .checkpoints.
func vSpecGenerated(s string) bool {
	res := false
	for _, pre := range []string{"", "/", "./"} {
		for _, name := range []string{".datamon", ".conflicts", ".checkpoints"} {
			full := pre + name
			if len(s) == len(full) {
				res = vOr(res, vEqAt(s, 0, full))
			} else if len(s) > len(full) {
				res = vOr(res, vEqAt(s, 0, full+"/"))
			}
		}
	}
	return res
}

func VerifC20Generated() {
	n := vChoose("len", 17) // 0..16
	if n == 16 {
		vCover("len16")
	}
	s := vString("s", n)
	got := IsGeneratedFile(s)
	want := vSpecGenerated(s)
	vAssert(got == want, "generated-file-detection-matches-spec")
}

// ---- validators -----------------------------------------------------------------

// VerifC20Validators: ValidateRepo / ValidateLabel accept a name only if it
// holds no '/', accept exactly the documented alphabet on ASCII names, and
// never panic. Names: 1..3 ASCII bytes (quick), plus a Latin-1 letter
// (2-byte rune U+00C0..U+00FF) followed by an arbitrary ASCII byte, and in the
// thorough tier arbitrary 2-byte sequences.
func VerifC20Validators() {
	vBudget(20000000)
	vUnwind(3000)
	var name string
	shape := vChoose("shape", 3)
	switch shape {
	case 0:
		n := vChoose("nameLen", 3) + 1 // 1..3 ASCII bytes
		name = vString("name", n)
		for i := 0; i < n; i++ {
			vAssume(name[i] < 0x80)
		}
	case 1:
		// a 2-byte Latin-1 rune then one ASCII byte
		lo := vByte("lat", 0x80, 0xBF)
		c := vByte("tail", 0, 0x7f)
		name = string([]byte{0xC3, lo, c})
		vCover("two-byte-rune")
	default:
		if !vThorough() {
			vAssume(false)
		}
		name = vString("name2", 2)
	}
	n := len(name)
	isLabel := vBool("isLabel")
	var err error
	if isLabel {
		err = ValidateLabel(LabelDescriptor{Name: name, BundleID: "b"})
	} else {
		err = ValidateRepo(RepoDescriptor{Name: name, Description: "d"})
	}
	ok := err == nil
	vObserve("ok", ok)
	hasSlash := false
	allASCII := true
	allAlpha := true
	for i := 0; i < n; i++ {
		c := name[i]
		hasSlash = vOr(hasSlash, c == '/')
		allASCII = vAnd(allASCII, c < 0x80)
		alpha := vOr(vOr(vAnd(c >= 'a', c <= 'z'), vAnd(c >= 'A', c <= 'Z')), vOr(vAnd(c >= '0', c <= '9'), c == '-'))
		if isLabel {
			alpha = vOr(alpha, c == '_')
		}
		allAlpha = vAnd(allAlpha, alpha)
	}
	vAssert(vImplies(ok, !hasSlash), "accepted-name-has-no-slash")
	vAssert(vImplies(allASCII, ok == allAlpha), "ascii-names-accepted-iff-in-documented-alphabet")
}
