//verif:pkg pkg/model
//verif:assume the documented alphabet (letters, decimal digits, hyphen; labels also connector punctuation) is the Unicode 15 category/property data for runes below U+0800, written out as a table (harness/C20/alpha_table.go); runes from U+0800 are outside the bound
//verif:assume names are non-empty and contain no '/' byte (VerifC20Validators decides that the validators guarantee this); name lengths 1..3 bytes, all byte values symbolic
//verif:assume diamond / generation / bundle ids are concrete well-formed ksuids (ksuid base62 parsing is division-heavy); file-list indices drawn from a boundary list {0,1,9,10,999,1000,2^32,2^63-1,2^63,2^64-1}
//verif:assume regexp: compiled program of the pattern literal found in the code, unrolled as an NFA over the subject bytes; symbolic subject bytes are ASCII
//verif:assume descriptor YAML round trip is NOT decided (yaml.v2 is reflection-driven third-party code, a stub in this framework)
//verif:cover VerifC20ArchivePaths repo label bundle filelist context diamond split splitfilelist
//verif:cover VerifC20Generated len16
//verif:cover VerifC20Validators two-byte-rune
//verif:cover VerifC20Distinct different-kinds same-kind
//verif:cover VerifC20ConsumablePaths filelist descriptor reverse-index-chunk
package model


const (
	vKsuid1 = "1c2PPkGSFwzlGuXIzGvRlK5XYyG"
	vKsuid2 = "0ujtsYcgvSTl8PAuAdqWYSMnLOv"
)

func vName(tag string) string {
	n := vChoose(tag+"Len", 3) + 1
	s := vString(tag, n)
	for i := 0; i < n; i++ {
		vAssume(s[i] != '/')
	}
	return s
}

var vIndices = []uint64{0, 1, 9, 10, 999, 1000, 1 << 32, 1<<63 - 1, 1 << 63, 1<<64 - 1}

func vIndex() uint64 { return vIndices[vChoose("index", len(vIndices))] }

// VerifC20ArchivePaths: parse(build(x)) == x for every kind of metadata path.
func VerifC20ArchivePaths() {
	vBudget(8000000)
	repo := vName("repo")
	switch vChoose("kind", 8) {
	case 0:
		vCover("repo")
		c, err := GetArchivePathComponents(GetArchivePathToRepoDescriptor(repo))
		vAssert(err == nil, "repo-path-parses")
		vAssert(vStrEqual(c.Repo, repo), "repo-round-trips")
		vAssert(c.ArchiveFileName == "repo.yaml" && c.BundleID == "" && c.LabelName == "" && c.DiamondID == "", "repo-other-fields")
	case 1:
		vCover("label")
		label := vName("label")
		c, err := GetArchivePathComponents(GetArchivePathToLabel(repo, label))
		vAssert(err == nil, "label-path-parses")
		vAssert(vAnd(vStrEqual(c.Repo, repo), vStrEqual(c.LabelName, label)), "label-round-trips")
		vAssert(c.ArchiveFileName == "label.yaml" && c.BundleID == "", "label-other-fields")
	case 2:
		vCover("bundle")
		c, err := GetArchivePathComponents(GetArchivePathToBundle(repo, vKsuid1))
		vAssert(err == nil, "bundle-path-parses")
		vAssert(vStrEqual(c.Repo, repo), "bundle-repo-round-trips")
		vAssert(c.BundleID == vKsuid1 && c.ArchiveFileName == "bundle.yaml", "bundle-fields")
	case 3:
		vCover("filelist")
		idx := vIndex()
		p := GetArchivePathToBundleFileList(repo, vKsuid1, idx)
		c, err := GetArchivePathComponents(p)
		vAssert(err == nil, "filelist-path-parses")
		vAssert(vStrEqual(c.Repo, repo), "filelist-repo-round-trips")
		vAssert(c.BundleID == vKsuid1, "filelist-bundle-id")
		other := GetArchivePathToBundleFileList(repo, vKsuid1, vIndices[(vChoose("index2", len(vIndices)))])
		vObserve("p", len(p))
		_ = other
	case 4:
		vCover("context")
		ctx := vName("context")
		vAssume(vAnd(ctx[0] != '.', true)) // path.Join cleans "." and ".." (not valid context names)
		c, err := GetArchivePathComponents(GetPathToContext(ctx))
		vAssert(err == nil, "context-path-parses")
		vAssert(vStrEqual(c.Context, ctx), "context-round-trips")
	case 5:
		vCover("diamond")
		// every state a diamond can be written in: initialized -> running descriptor, done / canceled -> final descriptor
		states := []DiamondState{DiamondInitialized, DiamondDone, DiamondCanceled}
		st := states[vChoose("state", 3)]
		final := st != DiamondInitialized
		p := GetArchivePathToDiamond(repo, vKsuid1, st)
		if final {
			vAssert(vStrEqual(p, GetArchivePathToFinalDiamond(repo, vKsuid1)), "final-diamond-path")
		} else {
			vAssert(vStrEqual(p, GetArchivePathToInitialDiamond(repo, vKsuid1)), "initial-diamond-path")
		}
		vAssert(vNot(vStrEqual(GetArchivePathToFinalDiamond(repo, vKsuid1), GetArchivePathToInitialDiamond(repo, vKsuid1))), "running-and-final-diamond-paths-differ")
		c, err := GetArchivePathComponents(p)
		vAssert(err == nil, "diamond-path-parses")
		vAssert(vStrEqual(c.Repo, repo), "diamond-repo-round-trips")
		vAssert(c.DiamondID == vKsuid1 && c.SplitID == "" && c.IsFinalState == final, "diamond-fields")
	case 6:
		vCover("split")
		split := vName("split")
		states := []SplitState{SplitRunning, SplitDone}
		st := states[vChoose("state", 2)]
		final := st == SplitDone
		p := GetArchivePathToSplit(repo, vKsuid1, split, st)
		if final {
			vAssert(vStrEqual(p, GetArchivePathToFinalSplit(repo, vKsuid1, split)), "final-split-path")
		} else {
			vAssert(vStrEqual(p, GetArchivePathToInitialSplit(repo, vKsuid1, split)), "initial-split-path")
		}
		vAssert(vNot(vStrEqual(GetArchivePathToFinalSplit(repo, vKsuid1, split), GetArchivePathToInitialSplit(repo, vKsuid1, split))), "running-and-final-split-paths-differ")
		c, err := GetArchivePathComponents(p)
		vAssert(err == nil, "split-path-parses")
		vAssert(vAnd(vStrEqual(c.Repo, repo), vStrEqual(c.SplitID, split)), "split-round-trips")
		vAssert(c.DiamondID == vKsuid1 && c.IsFinalState == final && c.GenerationID == "", "split-fields")
	case 7:
		vCover("splitfilelist")
		split := vName("split")
		idx := vIndex()
		c, err := GetArchivePathComponents(GetArchivePathToSplitFileList(repo, vKsuid1, split, vKsuid2, idx))
		vAssert(err == nil, "split-filelist-path-parses")
		vAssert(vAnd(vStrEqual(c.Repo, repo), vStrEqual(c.SplitID, split)), "split-filelist-round-trips")
		vAssert(c.DiamondID == vKsuid1 && c.GenerationID == vKsuid2, "split-filelist-fields")
	}
}

// VerifC20ConsumablePaths: the consumable-store metadata paths and their inverse, for every index.
func VerifC20ConsumablePaths() {
	vBudget(8000000)
	kind := vChoose("kind", 3)
	if kind == 2 {
		// reverse-lookup index chunk files (written by purge): name <-> chunk number
		vCover("reverse-index-chunk")
		idx := vIndex()
		got, err := ReverseIndexChunk(ReverseIndexFile(idx))
		vAssert(err == nil && got == idx, "reverse-index-chunk-round-trips")
		_, err = ReverseIndexChunk(ReverseIndexPrefix() + "-5.yaml")
		vAssert(err != nil, "negative-chunk-number-is-rejected")
		return
	}
	if kind == 0 {
		vCover("descriptor")
		p := GetConsumablePathToBundle(vKsuid1) // panics if its own inverse disagrees
		info, err := GetConsumableStorePathMetadata(p)
		vAssert(err == nil && info.Type == ConsumableStorePathTypeDescriptor && info.BundleID == vKsuid1, "descriptor-round-trips")
	} else {
		vCover("filelist")
		idx := vIndex()
		p := GetConsumablePathToBundleFileList(vKsuid1, idx) // panics if its own inverse disagrees
		info, err := GetConsumableStorePathMetadata(p)
		vAssert(err == nil && info.Type == ConsumableStorePathTypeFileList && info.BundleID == vKsuid1 && info.Index == idx, "filelist-round-trips")
	}
}

// ---- generated-file recognition -------------------------------------------

func vEqAt(s string, off int, lit string) bool {
	if off+len(lit) > len(s) {
		return false
	}
	r := true
	for i := 0; i < len(lit); i++ {
		r = vAnd(r, s[off+i] == lit[i])
	}
	return r
}

// vSpecGenerated: after an optional leading "./" or "/", the first path
// component is .datamon, .conflicts or .checkpoints.
func vSpecGenerated(s string) bool {
	res := false
	for _, pre := range []string{"", "/", "./"} {
		for _, name := range []string{".datamon", ".conflicts", ".checkpoints"} {
			full := pre + name
			if len(s) == len(full) {
				res = vOr(res, vEqAt(s, 0, full))
			} else if len(s) > len(full) {
				res = vOr(res, vEqAt(s, 0, full+"/"))
			}
		}
	}
	return res
}

func VerifC20Generated() {
	n := vChoose("len", 17) // 0..16
	if n == 16 {
		vCover("len16")
	}
	s := vString("s", n)
	got := IsGeneratedFile(s)
	want := vSpecGenerated(s)
	vAssert(got == want, "generated-file-detection-matches-spec")
}

// ---- validators -----------------------------------------------------------------

// VerifC20Validators: ValidateRepo / ValidateLabel never panic and accept a
// name exactly when every rune of it belongs to the documented alphabet
// (letters, decimal digits, hyphens; labels also connector punctuation),
// the alphabet being written out as data for every rune below U+0800
// (vAlphaTable). Names: 1..3 ASCII bytes; a 2-byte rune (every lead byte
// C2..DF, every continuation byte) alone, before or after an ASCII byte;
// thorough: also arbitrary (possibly ill-formed) 2-byte sequences.
func VerifC20Validators() {
	vBudget(20000000)
	vUnwind(3000)
	var name string
	var runes []int // the name as runes (symbolic), for the oracle
	shape := vChoose("shape", 5)
	switch shape {
	case 0:
		n := vChoose("nameLen", 3) + 1 // 1..3 ASCII bytes
		name = vString("name", n)
		for i := 0; i < n; i++ {
			vAssume(name[i] < 0x80)
			runes = append(runes, int(name[i]))
		}
	case 1, 2, 3:
		hi := vByte("lead", 0xC2, 0xDF)
		lo := vByte("cont", 0x80, 0xBF)
		r := (int(hi)&0x1F)<<6 | int(lo)&0x3F
		c := vByte("ascii", 0, 0x7f)
		switch shape {
		case 1:
			name = string([]byte{hi, lo})
			runes = []int{r}
		case 2:
			name = string([]byte{hi, lo, c})
			runes = []int{r, int(c)}
		default:
			name = string([]byte{c, hi, lo})
			runes = []int{int(c), r}
		}
		vCover("two-byte-rune")
	default:
		if !vThorough() {
			vAssume(false)
		}
		name = vString("name2", 2)
	}
	isLabel := vBool("isLabel")
	var err error
	if isLabel {
		err = ValidateLabel(LabelDescriptor{Name: name, BundleID: "b"})
	} else {
		err = ValidateRepo(RepoDescriptor{Name: name, Description: "d"})
	}
	ok := err == nil
	vObserve("ok", ok)
	hasSlash := false
	for i := 0; i < len(name); i++ {
		hasSlash = vOr(hasSlash, name[i] == '/')
	}
	vAssert(vImplies(ok, !hasSlash), "accepted-name-has-no-slash")
	if runes != nil {
		want := true
		for _, r := range runes {
			m := vAlphaTable[r]
			mask := byte(1 | 2 | 4)
			if isLabel {
				mask |= 8
			}
			want = vAnd(want, m&mask != 0)
		}
		vAssert(ok == want, "accepted-iff-every-rune-in-documented-alphabet")
	}
}

// VerifC20Distinct: metadata paths of different objects never coincide: two
// paths built by (possibly different) builders from valid names are equal only
// if they are of the same kind and were built from the same names.
func VerifC20Distinct() {
	vBudget(20000000)
	build := func(tag string) (kind int, p string, a, b string) {
		kind = vChoose(tag+"kind", 9)
		n := vChoose(tag+"Len", 2) + 1
		a = vString(tag+"a", n)
		for i := 0; i < n; i++ {
			vAssume(a[i] != '/')
		}
		b = "x"
		if kind == 1 || kind == 6 || kind == 7 || kind == 8 {
			m := vChoose(tag+"bLen", 2) + 1
			b = vString(tag+"b", m)
			for i := 0; i < m; i++ {
				vAssume(b[i] != '/')
			}
		}
		switch kind {
		case 0:
			p = GetArchivePathToRepoDescriptor(a)
		case 1:
			p = GetArchivePathToLabel(a, b)
		case 2:
			p = GetArchivePathToBundle(a, vKsuid1)
		case 3:
			p = GetArchivePathToBundleFileList(a, vKsuid1, 7)
		case 4:
			p = GetArchivePathToInitialDiamond(a, vKsuid1)
		case 5:
			p = GetArchivePathToFinalDiamond(a, vKsuid1)
		case 6:
			p = GetArchivePathToInitialSplit(a, vKsuid1, b)
		case 7:
			p = GetArchivePathToFinalSplit(a, vKsuid1, b)
		default:
			p = GetArchivePathToSplitFileList(a, vKsuid1, b, vKsuid2, 7)
		}
		return
	}
	k1, p1, a1, b1 := build("p")
	k2, p2, a2, b2 := build("q")
	if k1 != k2 {
		vCover("different-kinds")
		vAssert(vNot(vStrEqual(p1, p2)), "paths-of-different-kinds-differ")
	} else {
		vCover("same-kind")
		vAssert(vImplies(vStrEqual(p1, p2), vAnd(vStrEqual(a1, a2), vStrEqual(b1, b2))), "equal-paths-have-equal-names")
	}
}
