//verif:pkg pkg/core
//verif:use store,corehelp
//verif:assume the metadata store is the in-memory model with object-store listing semantics (lexicographic, page token = first item of the next page, delimiter roll-up); yaml.v2 round-trips opaque documents
//verif:assume key universe: repos {r, r2} (one name prefixes the other) plus optional {ab}; in r three bundles each absent / committed / leftover of an interrupted upload (index files, no descriptor); three labels; two diamonds each absent / running / running+done, the first with up to two splits each absent / running / running+done with two split index files; every page size from 1 to the number of keys + 1; list concurrency 1..2
//verif:cover VerifC07Bundles leftover-skipped three-bundles page-size-1
//verif:cover VerifC07Repos prefix-named-repos
//verif:cover VerifC07Labels three-labels
//verif:assume listings under faults: a fixed world (repos r, r2, ab; in r two bundles, two labels, two diamonds running+done, two splits running+done), every kind of listing with a solver-chosen page size 1..5 and one transient fault at a solver-chosen store call of the listing (listing pages and descriptor reads)
//verif:cover VerifC07ListFaults listing-page-failed descriptor-read-failed reported-failure descriptor-transfer-cut
//verif:cover VerifC07Diamonds done-diamond split-file-lists-present done-split page-size-1 start-times-against-id-order
package core

import (
	"time"
	"github.com/oneconcern/datamon/pkg/model"
)

func vB2i(b bool) int {
	if b {
		return 1
	}
	return 0
}

func vListOpts() []Option {
	return nil
}

// VerifC07Bundles: ListBundles / ListBundlesApply return exactly the committed bundles of the repo, once each, in key order.
func VerifC07Bundles() {
	vBudget(100000000)
	vUnwind(100000)
	meta := newVStore("meta")
	stores := vCtxStoresAll(meta, meta, newVStore("blob"))
	vPutRepo(meta, "r")
	vPutRepo(meta, "r2")
	vPutBundle(meta, "r2", vB2, 1, true) // a bundle of another repo whose name extends r
	ids := []string{vB1, vB2, vB3}
	var want []string
	nLeft := 0
	for _, id := range ids {
		switch vChoose("state", 3) {
		case 1:
			vPutBundle(meta, "r", id, 2, true)
			want = append(want, id)
		case 2:
			vPutBundle(meta, "r", id, 2, false)
			nLeft++
		}
	}
	if nLeft > 0 {
		vCover("leftover-skipped")
	}
	if len(want) == 3 {
		vCover("three-bundles")
	}
	c := vInt("pageSize", 1, 4) // symbolic: the listing code and the store decide on it
	if c == 1 {
		vCover("page-size-1")
	}
	conc := vChoose("concurrency", 2+vB2i(vThorough())) + 1 // list concurrency 1..2 (thorough 1..3)
	got, err := ListBundles("r", stores, BatchSize(c), ConcurrentList(conc))
	vAssert(err == nil, "list-bundles-succeeds")
	vAssert(len(got) == len(want), "bundles-listed-exactly-once-each")
	for i := range got {
		if i < len(want) {
			vAssert(got[i].ID == want[i], "bundles-in-key-order")
		}
	}
	var applied []string
	err = ListBundlesApply("r", stores, func(b model.BundleDescriptor) error { applied = append(applied, b.ID); return nil }, BatchSize(c), ConcurrentList(conc))
	vAssert(err == nil, "list-bundles-apply-succeeds")
	vAssert(len(applied) == len(want), "apply-sees-every-bundle-once")
	for i := range applied {
		if i < len(want) {
			vAssert(applied[i] == want[i], "apply-in-key-order")
		}
	}
}

// VerifC07Repos: ListRepos returns every repository once, in name order.
func VerifC07Repos() {
	vBudget(100000000)
	vUnwind(100000)
	meta := newVStore("meta")
	stores := vCtxStoresAll(meta, meta, newVStore("blob"))
	names := []string{"a", "a-b", "ab", "b"}
	var want []string
	for _, n := range names {
		if vChoose("has", 2) == 1 {
			vPutRepo(meta, n)
			want = append(want, n)
		}
	}
	if len(want) == 4 {
		vCover("prefix-named-repos")
	}
	c := vInt("pageSize", 1, 5)
	conc := vChoose("concurrency", 2+vB2i(vThorough())) + 1 // list concurrency 1..2 (thorough 1..3)
	got, err := ListRepos(stores, BatchSize(c), ConcurrentList(conc))
	vAssert(err == nil, "list-repos-succeeds")
	vAssert(len(got) == len(want), "repos-listed-exactly-once-each")
	// documented order (ListReposApply): lexicographic order of keys, i.e. of repos/<name>/repo.yaml
	keyOf := func(n string) string { return model.GetArchivePathToRepoDescriptor(n) }
	hasA, hasAB := false, false
	for _, n := range want {
		hasA = hasA || n == "a"
		hasAB = hasAB || n == "a-b"
	}
	for i := 1; i < len(got); i++ {
		// known finding C07-F3: each page is re-sorted by name, which differs from key order when a name
		// extends another by a character below '/' ("a-b" vs "a"): the order then depends on the page size
		vAssertR(keyOf(got[i-1].Name) < keyOf(got[i].Name), "repos-in-key-order", "C07-F3", hasA && hasAB && c > 1)
	}
	for i, r := range got {
		found := false
		for _, n := range want {
			found = found || n == r.Name
		}
		vAssert(found, "listed-repo-exists")
		for j := 0; j < i; j++ {
			vAssert(got[j].Name != r.Name, "repo-listed-once")
		}
	}
}

// VerifC07Labels: ListLabels returns exactly the labels of the repo, once each.
func VerifC07Labels() {
	vBudget(100000000)
	vUnwind(100000)
	meta := newVStore("meta")
	stores := vCtxStoresAll(meta, meta, newVStore("blob"))
	vPutRepo(meta, "r")
	vPutRepo(meta, "r2")
	put := func(repo, name, bundle string) {
		meta.putRaw(model.GetArchivePathToLabel(repo, name), vYaml(model.LabelDescriptor{Name: name, BundleID: bundle}))
	}
	put("r2", "l1", vB1)
	names := []string{"l1", "l2", "l2-x"}
	bundles := []string{vB3, vB2, vB1} // bundle ids in the reverse order of the names
	want := map[string]string{}
	n := 0
	for i, nm := range names {
		if vChoose("has", 2) == 1 {
			put("r", nm, bundles[i])
			want[nm] = bundles[i]
			n++
		}
	}
	if n == 3 {
		vCover("three-labels")
	}
	c := vInt("pageSize", 1, 4)
	conc := vChoose("concurrency", 2+vB2i(vThorough())) + 1 // list concurrency 1..2 (thorough 1..3)
	got, err := ListLabels("r", stores, BatchSize(c), ConcurrentList(conc))
	vAssert(err == nil, "list-labels-succeeds")
	vAssert(len(got) == n, "labels-listed-exactly-once-each")
	for i, l := range got {
		b, ok := want[l.Name]
		vAssert(ok && b == l.BundleID, "listed-label-exists-with-its-bundle")
		for j := 0; j < i; j++ {
			vAssert(got[j].Name != l.Name, "label-listed-once")
		}
	}
	var applied []string
	err = ListLabelsApply("r", stores, func(l model.LabelDescriptor) error { applied = append(applied, l.Name); return nil }, BatchSize(c), ConcurrentList(conc))
	vAssert(err == nil, "list-labels-apply-succeeds")
	vAssert(len(applied) == n, "apply-sees-every-label-once")
	for i := 1; i < len(applied); i++ {
		// documented: "in lexicographic order of keys"; known finding C07-F2: each page of labels is
		// re-sorted by bundle ID, so within a page the order is not the key order
		vAssertR(model.GetArchivePathToLabel("r", applied[i-1]) < model.GetArchivePathToLabel("r", applied[i]), "labels-applied-in-key-order", "C07-F2", c > 1)
	}
}

// VerifC07Diamonds: ListDiamonds / ListSplits return one descriptor per object (the final one when it
// exists), whatever else (split descriptors, split file lists) shares the prefix, for every page size.
func VerifC07Diamonds() {
	vBudget(200000000)
	vUnwind(100000)
	meta := newVStore("vmeta")
	stores := vCtxStoresAll(meta, meta, newVStore("blob"))
	vPutRepo(meta, "r")
	vPutRepo(meta, "r2")
	putDiamond := func(repo, id string, state int) { // 1 = running, 2 = running + done
		meta.putRaw(model.GetArchivePathToInitialDiamond(repo, id), vYaml(model.DiamondDescriptor{DiamondID: id, State: model.DiamondInitialized}))
		if state == 2 {
			meta.putRaw(model.GetArchivePathToFinalDiamond(repo, id), vYaml(model.DiamondDescriptor{DiamondID: id, State: model.DiamondDone}))
		}
	}
	// start times of the splits: none recorded, or in / against the order of the split ids
	timing := vChoose("splitStartTimes", 3)
	startOf := func(sid string) time.Time {
		t0 := time.Date(2021, 1, 1, 0, 0, 0, 0, time.UTC)
		switch {
		case timing == 0:
			return time.Time{}
		case (timing == 1) == (sid == "s1"):
			return t0
		}
		return t0.Add(time.Hour)
	}
	putSplit := func(repo, did, sid string, state int) {
		meta.putRaw(model.GetArchivePathToInitialSplit(repo, did, sid), vYaml(model.SplitDescriptor{SplitID: sid, State: model.SplitRunning, GenerationID: vG1, StartTime: startOf(sid)}))
		if state == 2 {
			meta.putRaw(model.GetArchivePathToFinalSplit(repo, did, sid), vYaml(model.SplitDescriptor{SplitID: sid, State: model.SplitDone, GenerationID: vG1, StartTime: startOf(sid)}))
		}
		for i := 0; i < 2; i++ {
			meta.putRaw(model.GetArchivePathToSplitFileList(repo, did, sid, vG1, uint64(i)), vYaml(model.BundleEntries{}))
		}
	}
	putDiamond("r2", vD1, 2)
	wantD := map[string]model.DiamondState{}
	wantS := map[string]model.SplitState{}
	d1 := vChoose("d1", 3)
	if d1 > 0 {
		putDiamond("r", vD1, d1)
		wantD[vD1] = model.DiamondInitialized
		if d1 == 2 {
			wantD[vD1] = model.DiamondDone
			vCover("done-diamond")
		}
		for _, sid := range []string{"s1", "split-2"} {
			st := vChoose("split", 3)
			if st > 0 {
				putSplit("r", vD1, sid, st)
				vCover("split-file-lists-present")
				wantS[sid] = model.SplitRunning
				if st == 2 {
					wantS[sid] = model.SplitDone
					vCover("done-split")
				}
			}
		}
	}
	d2 := vChoose("d2", 3)
	if d2 > 0 {
		putDiamond("r", vD2, d2)
		wantD[vD2] = model.DiamondInitialized
		if d2 == 2 {
			wantD[vD2] = model.DiamondDone
		}
	}
	nKeys := 0
	for _, k := range meta.keys {
		if len(k) > len("diamonds/r/") && k[:len("diamonds/r/")] == "diamonds/r/" {
			nKeys++
		}
	}
	c := vInt("pageSize", 1, nKeys+1)
	if c == 1 {
		vCover("page-size-1")
	}
	conc := vChoose("concurrency", 2+vB2i(vThorough())) + 1 // list concurrency 1..2 (thorough 1..3)
	got, err := ListDiamonds("r", stores, BatchSize(c), ConcurrentList(conc))
	vAssert(err == nil, "list-diamonds-succeeds")
	vAssert(len(got) == len(wantD), "diamonds-listed-exactly-once-each")
	for i, d := range got {
		st, ok := wantD[d.DiamondID]
		vAssert(ok, "listed-diamond-exists")
		vAssert(!ok || d.State == st, "diamond-listed-in-its-latest-state")
		for j := 0; j < i; j++ {
			vAssert(got[j].DiamondID != d.DiamondID, "diamond-listed-once")
		}
	}
	if d1 > 0 {
		gs, err := ListSplits("r", vD1, stores, BatchSize(c), ConcurrentList(conc))
		vAssert(err == nil, "list-splits-succeeds")
		vAssert(len(gs) == len(wantS), "splits-listed-exactly-once-each")
		for i, s := range gs {
			st, ok := wantS[s.SplitID]
			vAssert(ok, "listed-split-exists")
			vAssert(!ok || s.State == st, "split-listed-in-its-latest-state")
			for j := 0; j < i; j++ {
				vAssert(gs[j].SplitID != s.SplitID, "split-listed-once")
			}
		}
		// one page holding every key: the documented order is by start time, then by id
		if len(gs) == 2 && c >= nKeys {
			first := "s1"
			if timing == 2 {
				first = "split-2"
				vCover("start-times-against-id-order")
			}
			vAssert(gs[0].SplitID == first, "splits-of-a-page-ordered-by-start-time")
		}
	}
}

// VerifC07ListFaults: one transient store fault at any store call of a listing: the listing terminates and either
// reports the failure or returns the complete result; it never returns a silently truncated list.
func VerifC07ListFaults() {
	vBudget(300000000)
	vUnwind(100000)
	vTerminates()
	meta := newVStore("meta")
	stores := vCtxStoresAll(meta, meta, newVStore("blob"))
	for _, r := range []string{"r", "r2", "ab"} {
		vPutRepo(meta, r)
	}
	vPutBundle(meta, "r", vB1, 1, true)
	vPutBundle(meta, "r", vB2, 1, true)
	for _, l := range []string{"l1", "l2"} {
		meta.putRaw(model.GetArchivePathToLabel("r", l), vYaml(model.LabelDescriptor{Name: l, BundleID: vB1}))
	}
	for _, d := range []string{vD1, vD2} {
		meta.putRaw(model.GetArchivePathToInitialDiamond("r", d), vYaml(model.DiamondDescriptor{DiamondID: d, State: model.DiamondInitialized}))
		meta.putRaw(model.GetArchivePathToFinalDiamond("r", d), vYaml(model.DiamondDescriptor{DiamondID: d, State: model.DiamondDone}))
	}
	for _, sid := range []string{"s1", "s2"} {
		meta.putRaw(model.GetArchivePathToInitialSplit("r", vD1, sid), vYaml(model.SplitDescriptor{SplitID: sid, State: model.SplitRunning, GenerationID: vG1}))
		meta.putRaw(model.GetArchivePathToFinalSplit("r", vD1, sid), vYaml(model.SplitDescriptor{SplitID: sid, State: model.SplitDone, GenerationID: vG1}))
	}
	page := vInt("pageSize", 1, 5)
	kind := vChoose("listing", 5)
	cr := &vCrasher{stores: []*vStore{meta}, allCalls: true, transient: true}
	cutTransfer := vChoose("faultKind", 2) == 1
	if cutTransfer {
		// instead of a failing call: the transfer of one descriptor of the listed kind is cut after its first byte
		vCover("descriptor-transfer-cut")
		victim := []string{
			model.GetArchivePathToBundle("r", vB2),
			model.GetArchivePathToRepoDescriptor("r2"),
			model.GetArchivePathToLabel("r", "l2"),
			model.GetArchivePathToFinalDiamond("r", vD2),
			model.GetArchivePathToFinalSplit("r", vD1, "s2"),
		}[kind]
		meta.cutAfter = map[string]int{victim: 1}
	} else {
		cr.crashAt = vInt("faultAt", 1, 14)
		cr.install()
	}
	n, want := 0, 0
	var err error
	switch kind {
	case 0:
		var got model.BundleDescriptors
		got, err = ListBundles("r", stores, BatchSize(page))
		n, want = len(got), 2
	case 1:
		var got []model.RepoDescriptor
		got, err = ListRepos(stores, BatchSize(page))
		n, want = len(got), 3
	case 2:
		var got []model.LabelDescriptor
		got, err = ListLabels("r", stores, BatchSize(page))
		n, want = len(got), 2
	case 3:
		var got model.DiamondDescriptors
		got, err = ListDiamonds("r", stores, BatchSize(page))
		n, want = len(got), 2
	default:
		err = ListSplitsApply("r", vD1, stores, func(model.SplitDescriptor) error { n++; return nil }, BatchSize(page))
		want = 2
	}
	if cutTransfer {
		meta.cutAfter = nil
		vAssert(err != nil, "listing-over-a-cut-descriptor-transfer-reports-failure")
		return
	}
	cr.revive()
	vAssume(cr.crashed)
	if len(cr.at) > 4 && cr.at[:4] == "list" {
		vCover("listing-page-failed")
	}
	if len(cr.at) > 3 && cr.at[:3] == "get" {
		vCover("descriptor-read-failed")
	}
	if err != nil {
		vCover("reported-failure")
		return
	}
	vAssert(n == want, "listing-that-reports-success-is-complete")
}
