//verif:pkg pkg/core
//verif:use store,corehelp,diamondhelp
//verif:assume diamonds are driven the way the CLI drives them, through the real code end to end: CreateDiamond; split add = NewSplit + CreateSplit + Split.Upload (real cafs writer); commit = GetDiamond + NewDiamond(clone) + Commit; cancel = NewDiamond + Cancel. Stores are the in-memory model, BLAKE2b an injective UF, yaml.v2 round-trips opaque documents, ksuid.NewRandom yields fresh increasing ids
//verif:assume programs: every sequence of 3 (thorough: 4) operations over {add split s1 with files v1, add split s1 again with files v2, add split s2, commit, cancel}; crash model for VerifC12Crash: fail-stop stores at every mutating store call of a split upload or of a commit, landed or not, then a retry; interleavings for VerifC12Race: two concurrent operations (commit/commit, commit/cancel, cancel/cancel) with a preemption point before every mutating call (Put, Delete) on the metadata stores - every check-then-write window is opened - and at most 2 context switches (thorough: 3)
//verif:cover VerifC12Programs committed refused-after-commit refused-after-cancel rerun-of-done-split-refused commit-without-split-refused
//verif:cover VerifC12Crash split-crashed-then-rerun commit-crashed-then-retried replay-of-running-split-after-termination commit-retried-on-the-same-object fault-while-operating-on-a-terminated-diamond
//verif:cover VerifC12SplitFaults split-upload-failed
//verif:cover VerifC12CancelFaults cancel-failed
//verif:cover VerifC12Race two-commits commit-and-cancel switched checksummed-store overlapping-runs-of-one-split
package core

import (
	"github.com/oneconcern/datamon/pkg/model"
	"go.uber.org/zap"
)

// VerifC12Programs: sequential programs against the reference state machine of the statement.
func VerifC12Programs() {
	vBudget(400000000)
	vUnwind(300000)
	w := vNewDiamondWorld()
	nOps := 3
	if vThorough() {
		nOps = 4
	}
	state := "initialized"
	splitDone := map[string]map[string]string{} // split -> files of the run recorded as completing it
	bundleOf := ""
	s1First := false // s1 completed before s2
	var wantFiles map[string]bool
	for op := 0; op < nOps; op++ {
		before := vSnapshot(w.vmeta)
		beforeMeta := vSnapshot(w.meta)
		refused := false
		switch vChoose("op", 5) {
		case 0, 1, 2:
			sid, files, order := "s1", vFilesV1, []string{"a", "c"}
			switch vChoose("which", 3) {
			case 1:
				files, order = vFilesV2, []string{"a"}
			case 2:
				sid, files, order = "s2", vFilesS2, []string{"b", "c"}
			}
			vNextSecond()
			err := w.splitAdd(sid, files, order)
			switch {
			case state != "initialized":
				vAssert(err != nil, "new-split-refused-once-diamond-is-done-or-canceled")
				if state == "done" {
					vCover("refused-after-commit")
				} else {
					vCover("refused-after-cancel")
				}
				refused = true
			case splitDone[sid] != nil:
				vAssert(err != nil, "completed-split-cannot-be-rerun")
				vCover("rerun-of-done-split-refused")
				refused = true
			default:
				vAssert(err == nil, "split-upload-succeeds")
				if sid == "s1" {
					s1First = splitDone["s2"] == nil
				}
				splitDone[sid] = files
			}
		case 3:
			vNextSecond()
			id, err := w.commit(model.EnableConflicts)
			switch {
			case state != "initialized":
				vAssert(err != nil, "commit-refused-once-diamond-is-done-or-canceled")
				refused = true
			case len(splitDone) == 0:
				vAssert(err != nil, "commit-without-completed-split-refused")
				vCover("commit-without-split-refused")
				refused = true
			default:
				vAssert(err == nil, "commit-succeeds")
				vCover("committed")
				state = "done"
				bundleOf = id
				wantFiles = map[string]bool{}
				for _, fs := range splitDone {
					for n := range fs {
						wantFiles[n] = true
					}
				}
				if splitDone["s2"] != nil && splitDone["s1"] != nil {
					if _, both := splitDone["s1"]["c"]; both {
						// c is uploaded by both splits with different content: the earlier upload is kept as a conflict
						if s1First {
							wantFiles[".conflicts/s1/c"] = true
						} else {
							wantFiles[".conflicts/s2/c"] = true
						}
					}
				}
			}
		default:
			err := w.cancel()
			if state != "initialized" {
				vAssert(err != nil, "cancel-refused-once-diamond-is-done-or-canceled")
				refused = true
			} else {
				vAssert(err == nil, "cancel-succeeds")
				state = "canceled"
			}
		}
		if refused {
			// a refused operation leaves no trace in the diamond metadata and creates no bundle
			for k, v := range before {
				nv, ok := w.vmeta.data[k]
				vAssert(ok && string(nv) == v, "refused-operation-alters-no-diamond-metadata")
			}
			vAssert(len(w.vmeta.data) == len(before), "refused-operation-writes-no-diamond-metadata")
			for k := range w.meta.data {
				_, ok := beforeMeta[k]
				vAssert(ok, "refused-operation-writes-no-bundle-metadata")
			}
		}
	}
	// every diamond, split and bundle metadata object is written create-if-absent
	for _, st := range []*vStore{w.meta, w.vmeta} {
		for _, o := range st.ops {
			if o.Op == "put" || o.Op == "put-exists" || o.Op == "put-failed" {
				if (len(o.Key) > 8 && o.Key[:8] == "bundles/") || (len(o.Key) > 9 && o.Key[:9] == "diamonds/") {
					vAssert(o.NoOverw, "diamond-and-bundle-metadata-written-create-if-absent")
				}
			}
		}
	}
	ids := w.bundleIDs()
	if bundleOf == "" {
		vAssert(len(ids) == 0, "no-bundle-without-a-successful-commit")
	} else {
		vAssert(len(ids) == 1 && ids[0] == bundleOf, "a-diamond-produces-exactly-one-bundle")
		got, err := w.entries(bundleOf)
		vAssert(err == nil, "committed-bundle-is-readable")
		vAssert(vSameKeys(got, wantFiles), "bundle-holds-exactly-the-files-of-the-completed-splits")
	}
	dd, err := GetDiamond("r", vDiamond, w.stores(), DiamondLogger(zap.NewNop()))
	vAssert(err == nil, "diamond-readable")
	switch state {
	case "done":
		vAssert(dd.State == model.DiamondDone && dd.BundleID == bundleOf, "diamond-records-its-bundle")
	case "canceled":
		vAssert(dd.State == model.DiamondCanceled, "diamond-records-cancellation")
	default:
		vAssert(dd.State == model.DiamondInitialized, "diamond-still-initialized")
	}
}

// VerifC12Crash: a split upload or a commit dies at any of its mutating store calls (fail-stop), then the
// operation is retried; the diamond still yields at most one bundle, holding exactly the files of the run
// recorded as completing each split.
func VerifC12Crash() {
	vBudget(600000000)
	vUnwind(300000)
	w := vNewDiamondWorld()
	cr := &vCrasher{stores: []*vStore{w.meta, w.vmeta, w.blob}}
	cr.crashAt = vInt("crashAt", 1, 13) // symbolic crash point
	cr.landed = vChoose("landed", 2) == 1
	victim := vChoose("victim", 3)
	if victim == 2 {
		// the diamond is terminated (committed or canceled); a further operation then meets one transient store
		// fault at any of its store calls (reads included): it must not take the diamond for a live one
		vNextSecond()
		vAssert(w.splitAdd("s1", vFilesV1, []string{"a", "c"}) == nil, "split")
		vNextSecond()
		canceled := vChoose("terminator", 2) == 1
		if canceled {
			vAssert(w.cancel() == nil, "cancel")
		} else {
			_, e := w.commit(model.EnableConflicts)
			vAssert(e == nil, "commit")
		}
		before := w.bundleIDs()
		beforeV := vSnapshot(w.vmeta)
		cr.allCalls, cr.transient, cr.landed = true, true, false
		cr.install()
		vNextSecond()
		var err error
		switch vChoose("laterOperation", 3) {
		case 0:
			_, err = w.commit(model.EnableConflicts)
		case 1:
			err = w.splitAdd("s2", vFilesS2, []string{"b", "c"})
		default:
			err = w.cancel()
		}
		cr.revive()
		vAssume(cr.crashed)
		vCover("fault-while-operating-on-a-terminated-diamond")
		vAssert(err != nil, "operation-on-a-terminated-diamond-is-refused")
		after := w.bundleIDs()
		vAssert(len(after) == len(before), "terminated-diamond-produces-no-further-bundle")
		_, s2done := w.vmeta.data[model.GetArchivePathToFinalSplit("r", vDiamond, "s2")]
		vAssert(!s2done, "no-split-completes-on-a-terminated-diamond")
		vAssert(w.vmeta.data[model.GetArchivePathToFinalDiamond("r", vDiamond)] != nil && string(w.vmeta.data[model.GetArchivePathToFinalDiamond("r", vDiamond)]) == beforeV[model.GetArchivePathToFinalDiamond("r", vDiamond)], "terminal-state-record-unchanged")
		return
	}
	if victim == 0 {
		// the first run of split s1 (files v1) dies; s1 is rerun with files v2; s2 is added; commit
		cr.install()
		vNextSecond()
		err1 := w.splitAdd("s1", vFilesV1, []string{"a", "c"})
		cr.revive()
		vAssume(cr.crashed)
		vCover("split-crashed-then-rerun")
		_, firstRunCompleted := w.vmeta.data[model.GetArchivePathToFinalSplit("r", vDiamond, "s1")]
		vAssert(firstRunCompleted || err1 != nil, "interrupted-split-upload-reports-failure")
		if !firstRunCompleted && vChoose("terminateFirst", 3) > 0 {
			// the diamond is committed (with split s2) or canceled while s1 is still recorded as running:
			// replaying s1 afterwards must be refused like any new split
			vCover("replay-of-running-split-after-termination")
			vNextSecond()
			vAssert(w.splitAdd("s2", vFilesS2, []string{"b", "c"}) == nil, "second-split")
			vNextSecond()
			canceled := vChoose("terminator", 2) == 1
			id := ""
			if canceled {
				vAssert(w.cancel() == nil, "cancel")
			} else {
				var e error
				id, e = w.commit(model.EnableConflicts)
				vAssert(e == nil, "commit")
			}
			before := vSnapshot(w.vmeta)
			vNextSecond()
			vAssert(w.splitAdd("s1", vFilesV2, []string{"a"}) != nil, "split-replay-refused-once-diamond-is-done-or-canceled")
			_, done := w.vmeta.data[model.GetArchivePathToFinalSplit("r", vDiamond, "s1")]
			vAssert(!done, "no-split-completes-on-a-terminated-diamond")
			vAssert(len(w.vmeta.data) == len(before), "refused-replay-writes-no-diamond-metadata")
			ids := w.bundleIDs()
			if canceled {
				vAssert(len(ids) == 0, "canceled-diamond-has-no-bundle")
			} else {
				vAssert(len(ids) == 1 && ids[0] == id, "a-diamond-produces-exactly-one-bundle")
				got, e := w.entries(id)
				vAssert(e == nil && vSameKeys(got, map[string]bool{"b": true, "c": true}), "bundle-holds-only-the-splits-complete-at-commit")
			}
			return
		}
		vNextSecond()
		err2 := w.splitAdd("s1", vFilesV2, []string{"a"})
		if firstRunCompleted {
			vAssert(err2 != nil, "completed-split-cannot-be-rerun")
		} else {
			vAssert(err2 == nil, "interrupted-split-can-be-rerun")
		}
		vNextSecond()
		vAssert(w.splitAdd("s2", vFilesS2, []string{"b", "c"}) == nil, "second-split")
		vNextSecond()
		id, err := w.commit(model.EnableConflicts)
		vAssert(err == nil, "commit-succeeds")
		ids := w.bundleIDs()
		vAssert(len(ids) == 1 && ids[0] == id, "a-diamond-produces-exactly-one-bundle")
		got, e := w.entries(id)
		vAssert(e == nil, "bundle-readable")
		want := map[string]bool{"a": true, "b": true, "c": true}
		if firstRunCompleted {
			want[".conflicts/s1/c"] = true
		}
		vAssert(vSameKeys(got, want), "bundle-holds-exactly-the-files-of-the-recorded-runs")
		if e == nil {
			// a comes from the run recorded as completing s1
			wantA := "s1-a-v2"
			if firstRunCompleted {
				wantA = "s1-a-v1"
			}
			vAssert(got["a"] == w.keyOf(wantA), "split-content-is-that-of-the-recorded-run")
		}
		return
	}
	// the commit dies; it is retried (a new process: new Diamond object)
	vNextSecond()
	vAssert(w.splitAdd("s1", vFilesV1, []string{"a", "c"}) == nil, "split")
	if vChoose("sameObject", 2) == 1 {
		// a transient store fault during the commit, then Commit() is called again on the same Diamond value
		vCover("commit-retried-on-the-same-object")
		cr.transient, cr.landed = true, false
		cr.install()
		vNextSecond()
		d, e := w.committer(model.EnableConflicts)
		vAssert(e == nil, "committer")
		err1 := d.Commit()
		cr.revive()
		vAssume(cr.crashed)
		vAssert(err1 != nil, "commit-hit-by-a-store-fault-reports-failure")
		afterFault := w.bundleIDs()
		_ = d.Commit()
		ids := w.bundleIDs()
		vAssertR(len(ids) <= 1, "a-diamond-produces-at-most-one-bundle", "C12-F1", false)
		if len(afterFault) == 1 {
			vAssert(len(ids) == 1 && ids[0] == afterFault[0], "retry-on-the-same-object-does-not-create-another-bundle")
		}
		return
	}
	cr.install()
	vNextSecond()
	_, err1 := w.commit(model.EnableConflicts)
	cr.revive()
	vAssume(cr.crashed)
	vCover("commit-crashed-then-retried")
	_, doneWritten := w.vmeta.data[model.GetArchivePathToFinalDiamond("r", vDiamond)]
	vAssert(doneWritten || err1 != nil, "interrupted-commit-reports-failure")
	afterCrash := w.bundleIDs()
	vNextSecond()
	_, err2 := w.commit(model.EnableConflicts)
	if doneWritten {
		vAssert(err2 != nil, "commit-refused-once-diamond-is-done")
	}
	ids := w.bundleIDs()
	// known finding C12-F1: a commit that dies after writing bundle.yaml and before diamond-done leaves the
	// diamond initialized; the retry commits again under a new bundle id
	vAssertR(len(ids) <= 1, "a-diamond-produces-at-most-one-bundle", "C12-F1", len(afterCrash) == 1 && !doneWritten)
	if err2 == nil {
		vAssert(len(ids) >= 1, "successful-commit-leaves-a-bundle")
	}
}


// VerifC12Race: two concurrent terminal operations on one diamond, every interleaving at store-call
// granularity on the metadata stores within the context-switch bound.
func VerifC12Race() {
	vBudget(600000000)
	vUnwind(300000)
	w := vNewDiamondWorld()
	if vChoose("storeWithCRC", 2) == 1 {
		w.crc = true // checksummed metadata writes (PutCRC), as the GCS backend has
		vCover("checksummed-store")
	}
	vNextSecond()
	vAssert(w.splitAdd("s1", vFilesV1, []string{"a", "c"}) == nil, "split")
	bound := 2
	if vThorough() {
		bound = 3
	}
	switches := 0
	hook := func() {
		if switches < bound && vChoose("switch", 2) == 1 {
			switches++
			vYield()
		}
	}
	kind := vChoose("pair", 4) // 0: commit/commit, 1: commit/cancel, 2: cancel/cancel, 3: two overlapping runs of split s2
	errs := make([]error, 2)
	if kind == 3 {
		// two runs of the same split id with different files overlap; then the diamond is committed
		vCover("overlapping-runs-of-one-split")
		runs := []map[string]string{{"b": "s2-b-run1", "d": "s2-d-run1"}, {"b": "s2-b-run2"}}
		orders := [][]string{{"b", "d"}, {"b"}}
		vNextSecond()
		w.meta.sched, w.vmeta.sched = hook, hook
		w.meta.schedMutatingOnly, w.vmeta.schedMutatingOnly = true, true
		vTasks(
			func() { errs[0] = w.splitAdd("s2", runs[0], orders[0]) },
			func() { errs[1] = w.splitAdd("s2", runs[1], orders[1]) },
		)
		w.meta.sched, w.vmeta.sched = nil, nil
		if switches > 0 {
			vCover("switched")
		}
		vAssert(!(errs[0] == nil && errs[1] == nil), "at-most-one-run-of-a-split-reports-completion")
		vNextSecond()
		id, cerr := w.commit(model.EnableConflicts)
		vAssert(cerr == nil, "commit-succeeds")
		got, e := w.entries(id)
		vAssert(e == nil, "bundle-readable")
		// s1 contributed a and c; s2 contributed the files of exactly one of its runs, or nothing if none completed
		run1 := got["b"] == w.keyOf("s2-b-run1") && got["d"] == w.keyOf("s2-d-run1") && vSameKeys(got, map[string]bool{"a": true, "c": true, "b": true, "d": true})
		run2 := got["b"] == w.keyOf("s2-b-run2") && vSameKeys(got, map[string]bool{"a": true, "c": true, "b": true})
		none := vSameKeys(got, map[string]bool{"a": true, "c": true})
		vAssert(run1 || run2 || none, "bundle-holds-the-files-of-exactly-one-run-of-the-split")
		if errs[0] == nil {
			vAssert(run1, "bundle-holds-the-run-that-reported-completion")
		}
		if errs[1] == nil {
			vAssert(run2, "bundle-holds-the-run-that-reported-completion")
		}
		return
	}
	isCommit := []bool{kind <= 1, kind == 0}
	task := func(k int) func() {
		return func() {
			if isCommit[k] {
				_, errs[k] = w.commit(model.EnableConflicts)
			} else {
				errs[k] = w.cancel()
			}
		}
	}
	if kind == 0 {
		vCover("two-commits")
	}
	if kind == 1 {
		vCover("commit-and-cancel")
	}
	vNextSecond()
	w.meta.sched, w.vmeta.sched = hook, hook
	w.meta.schedMutatingOnly, w.vmeta.schedMutatingOnly = true, true
	vTasks(task(0), task(1))
	w.meta.sched, w.vmeta.sched = nil, nil
	if switches > 0 {
		vCover("switched")
	}
	ids := w.bundleIDs()
	bothPassedCheck := errs[0] == nil && errs[1] == nil
	// known finding C12-F1: both commits pass the readiness check before either marks the diamond done
	vAssertR(len(ids) <= 1, "a-diamond-produces-at-most-one-bundle", "C12-F1", kind == 0 && switches > 0)
	nCommitOK, nCancelOK := 0, 0
	for k := range errs {
		if errs[k] == nil {
			if isCommit[k] {
				nCommitOK++
			} else {
				nCancelOK++
			}
		}
	}
	_ = bothPassedCheck
	vAssertR(nCommitOK <= 1, "at-most-one-commit-succeeds", "C12-F1", kind == 0 && switches > 0)
	vAssert(nCancelOK <= 1, "at-most-one-cancel-succeeds")
	vAssertR(!(nCommitOK > 0 && nCancelOK > 0), "commit-and-cancel-do-not-both-succeed", "C12-F2", kind == 1 && switches > 0)
	dd, err := GetDiamond("r", vDiamond, w.stores(), DiamondLogger(zap.NewNop()))
	vAssert(err == nil, "diamond-readable")
	if nCommitOK+nCancelOK > 0 {
		vAssert(dd.State != model.DiamondInitialized, "diamond-is-terminated-after-a-successful-terminal-operation")
	}
	if dd.State == model.DiamondCanceled {
		vAssertR(len(ids) == 0, "canceled-diamond-has-no-bundle", "C12-F2", kind == 1 && switches > 0)
	}
}

// VerifC12SplitFaults: a split upload hit by one transient fault at any store call (reads and listings included)
// reports the failure or is complete; after a retry of a failed upload the commit yields one bundle holding exactly
// the files of the run recorded as completing the split.
func VerifC12SplitFaults() {
	vBudget(600000000)
	vUnwind(300000)
	w := vNewDiamondWorld()
	cr := &vCrasher{stores: []*vStore{w.meta, w.vmeta, w.blob}, allCalls: true, transient: true}
	cr.crashAt = vInt("faultAt", 1, 40)
	cr.install()
	vNextSecond()
	err1 := w.splitAdd("s1", vFilesV1, []string{"a", "c"})
	cr.revive()
	vAssume(cr.crashed)
	_, done1 := w.vmeta.data[model.GetArchivePathToFinalSplit("r", vDiamond, "s1")]
	if err1 == nil {
		vAssert(done1, "split-upload-that-reports-success-is-recorded-complete")
	} else {
		vCover("split-upload-failed")
	}
	wantA := "s1-a-v1"
	want := map[string]bool{"a": true, "c": true}
	if !done1 {
		vNextSecond()
		vAssert(w.splitAdd("s1", vFilesV2, []string{"a"}) == nil, "failed-split-upload-can-be-rerun")
		wantA = "s1-a-v2"
		want = map[string]bool{"a": true}
	}
	vNextSecond()
	id, err := w.commit(model.EnableConflicts)
	vAssert(err == nil, "commit-succeeds")
	ids := w.bundleIDs()
	vAssert(len(ids) == 1 && ids[0] == id, "a-diamond-produces-exactly-one-bundle")
	got, e := w.entries(id)
	vAssert(e == nil && vSameKeys(got, want), "bundle-holds-exactly-the-files-of-the-recorded-run")
	if e == nil {
		vAssert(got["a"] == w.keyOf(wantA), "split-content-is-that-of-the-recorded-run")
	}
}

// VerifC12CancelFaults: a cancel hit by one transient fault at any store call: when it reports success the diamond
// is canceled and refuses commits; when it reports failure the diamond is still usable or canceled, never half-way,
// and no bundle appears.
func VerifC12CancelFaults() {
	vBudget(600000000)
	vUnwind(300000)
	w := vNewDiamondWorld()
	vNextSecond()
	vAssert(w.splitAdd("s1", vFilesV1, []string{"a", "c"}) == nil, "split")
	cr := &vCrasher{stores: []*vStore{w.meta, w.vmeta, w.blob}, allCalls: true, transient: true}
	cr.crashAt = vInt("faultAt", 1, 12)
	cr.install()
	vNextSecond()
	err := w.cancel()
	cr.revive()
	vAssume(cr.crashed)
	vAssert(len(w.bundleIDs()) == 0, "cancel-produces-no-bundle")
	dd, gerr := GetDiamond("r", vDiamond, w.stores(), DiamondLogger(zap.NewNop()))
	vAssert(gerr == nil, "diamond-readable")
	if err == nil {
		vCover("cancel-survived-the-fault")
		vAssert(dd.State == model.DiamondCanceled, "cancel-that-reports-success-canceled-the-diamond")
	} else {
		vCover("cancel-failed")
		vAssert(dd.State == model.DiamondCanceled || dd.State == model.DiamondInitialized, "diamond-is-canceled-or-still-usable")
	}
	vNextSecond()
	_, cerr := w.commit(model.EnableConflicts)
	if dd.State == model.DiamondCanceled {
		vAssert(cerr != nil && len(w.bundleIDs()) == 0, "commit-refused-on-a-canceled-diamond")
	} else {
		vAssert(cerr == nil && len(w.bundleIDs()) == 1, "commit-works-on-a-diamond-whose-cancel-failed")
	}
}
