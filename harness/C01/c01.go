//verif:pkg pkg/cafs
//verif:use store
//verif:assume leaf sizes 2..4 bytes injected below cafs.New's [64 B, 5 MiB] guard (the write/read code is parametric in the leaf size; New's guards are checked separately); content up to 3 leaves + 1 byte
//verif:assume BLAKE2b modelled as an injective uninterpreted function of (tree parameters, input)
//verif:assume object store = in-memory model with GCS semantics (put-atomic, readers may return short reads and io.EOF with or after the last bytes)
//verif:cover VerifC01PutLayout multi-leaf exact-multiple empty
//verif:cover VerifC01Read multi-leaf read-spans-leaves
//verif:cover VerifC01ReadAt multi-leaf past-eof
//verif:cover VerifC01WriteTo multi-leaf writer-at plain-writer
package cafs

import (
	"bytes"
	"context"
	"io"
	"sync"

	lru "github.com/hashicorp/golang-lru"
	"go.uber.org/zap"
)

// ---- environment -------------------------------------------------------

type vLeafBuf struct {
	baseBuffer
	buf [8]byte
}

func (b *vLeafBuf) Reset() { b.slice = b.buf[:0] }

// vNewFs builds a defaultFs the way New does, but with a small leaf size and
// small pool buffers (cafs.New only accepts 64 B .. 5 MiB).
func vNewFs(store *vStore, leaf uint32, flushes, prefetch int) *defaultFs {
	f := &defaultFs{
		store:                       cafsStore{backend: store},
		leafSize:                    leaf,
		concurrentFlushes:           flushes,
		readerConcurrentChunkWrites: 2,
		deduplicationScheme:         DeduplicationBlake,
		keysCacheSize:               16,
		withVerifyHash:              true,
		withPrefetch:                prefetch,
		l:                           zap.NewNop(),
	}
	const cacheBuffers = 2
	f.leafPool = &leafFreelist{
		list:      make([]LeafBuffer, 0, cacheBuffers+3),
		allocate:  func() LeafBuffer { x := new(vLeafBuf); x.Reset(); return x },
		size:      func() uint32 { return 8 },
		watermark: cacheBuffers + 3,
	}
	f.lru, _ = lru.NewWithEvict(cacheBuffers, func(_ interface{}, v interface{}) {
		f.leafPool.Release(v.(LeafBuffer))
	})
	f.keysCache, _ = lru.New(f.keysCacheSize)
	f.pather = func(lks Key) string { return lks.StringWithPrefix(f.prefix) }
	return f
}

// vChunkSrc hands its bytes over in chunks of the given sizes (then the rest).
type vChunkSrc struct {
	b     []byte
	sizes []int
	i     int
	pos   int
}

func (s *vChunkSrc) Read(p []byte) (int, error) {
	if s.pos >= len(s.b) {
		return 0, io.EOF
	}
	n := len(s.b) - s.pos
	if s.i < len(s.sizes) && s.sizes[s.i] < n {
		n = s.sizes[s.i]
	}
	s.i++
	if n > len(p) {
		n = len(p)
	}
	copy(p, s.b[s.pos:s.pos+n])
	s.pos += n
	return n, nil
}

func vSource(content []byte) io.Reader {
	switch vChoose("srcKind", 2) {
	case 0:
		// a source with WriteTo: everything arrives in one Write (bytes.Reader, as *os.File may)
		return bytes.NewReader(content)
	default:
		k := 2
		sizes := make([]int, k)
		for i := range sizes {
			sizes[i] = vChoose("chunk", len(content)+1) + 1
		}
		return &vChunkSrc{b: content, sizes: sizes}
	}
}

func vLeafParams() (L uint32, n int) {
	L = uint32(vChoose("leaf", 3) + 2) // 2..4
	max := 3*int(L) + 1
	if !vThorough() {
		max = 2*int(L) + 1
	}
	n = vChoose("n", max+1)
	return
}

// expected layout: leaf i (0-based) covers content[i*L : min((i+1)*L, n)]
func vNumLeaves(n int, L uint32) int { return (n + int(L) - 1) / int(L) }

// vPutObject stores content through the real Put and returns its key.
func vPutObject(fs *defaultFs, content []byte, src io.Reader) PutRes {
	res, err := fs.Put(context.Background(), src)
	vAssert(err == nil, "put-no-error")
	return res
}

// ---- H-Put: written size, store layout -----------------------------------

func VerifC01PutLayout() {
	vTerminates()
	vBudget(4000000)
	L, n := vLeafParams()
	content := vBytes("c", n)
	store := newVStore("blob")
	fs := vNewFs(store, L, vChoose("flushes", 2)+1, 0)
	src := vSource(content)
	vKnownCrash("C01-F1", true)
	res, err := fs.Put(context.Background(), src)
	vAssert(err == nil, "put-no-error")
	vAssert(res.Written == int64(n), "written-size")
	vObserve("written", res.Written)
	m := vNumLeaves(n, L)
	vAssert(len(res.Keys) == m*KeySize, "leaf-key-count")
	// every leaf blob holds exactly its slice of the content, root blob = leaf keys ++ root key
	for i := 0; i < m; i++ {
		var k Key
		copy(k[:], res.Keys[i*KeySize:(i+1)*KeySize])
		b, ok := store.data[k.String()]
		vAssert(ok, "leaf-blob-present")
		hi := (i + 1) * int(L)
		if hi > n {
			hi = n
		}
		vAssert(vBytesEqual(b, content[i*int(L):hi]), "leaf-blob-content")
	}
	rb, ok := store.data[res.Key.String()]
	vAssert(ok, "root-blob-present")
	vAssert(len(rb) == (m+1)*KeySize, "root-blob-size")
	if len(rb) == (m+1)*KeySize {
		vAssert(vBytesEqual(rb[:m*KeySize], res.Keys), "root-blob-lists-leaf-keys")
		vAssert(vBytesEqual(rb[m*KeySize:], res.Key[:]), "root-blob-ends-with-root-key")
	}
	if m >= 2 {
		vCover("multi-leaf")
	}
	if n > 0 && n%int(L) == 0 {
		vCover("exact-multiple")
	}
	if n == 0 {
		vCover("empty")
	}
}

// vStoreObject builds the stored form of content directly (the layout that
// VerifC01PutLayout establishes for Put), using the real key functions.
func vStoreObject(store *vStore, content []byte, L uint32) Key {
	n := len(content)
	m := vNumLeaves(n, L)
	keys := make([]Key, m)
	for i := 0; i < m; i++ {
		hi := (i + 1) * int(L)
		if hi > n {
			hi = n
		}
		chunk := content[i*int(L) : hi]
		var k Key
		if len(chunk) == int(L) {
			k, _ = KeyFromBytes(chunk, L, uint64(i+1), false)
		} else {
			k, _ = KeyFromBytes(chunk, L, uint64(i), true)
		}
		keys[i] = k
		store.putRaw(k.String(), append([]byte{}, chunk...))
	}
	root, _ := RootHash(keys, L)
	var rb []byte
	for _, k := range keys {
		rb = append(rb, k[:]...)
	}
	rb = append(rb, root[:]...)
	store.putRaw(root.String(), rb)
	return root
}

func vShortReads(store *vStore) {
	switch vChoose("readMode", 3) {
	case 1:
		store.readChunk = func(rem int) int { return 1 }
	case 2:
		store.eofWithData = true
	}
}

// ---- H-Read: sequential reads ------------------------------------------------

func VerifC01Read() {
	vTerminates()
	vBudget(4000000)
	L, n := vLeafParams()
	content := vBytes("c", n)
	store := newVStore("blob")
	fs := vNewFs(store, L, 1, 0)
	key := vStoreObject(store, content, L)
	vShortReads(store)
	rd, err := fs.Get(context.Background(), key)
	vAssert(err == nil, "get-no-error")
	var out []byte
	eof := false
	calls := 0
	bsz := vChoose("bufSize", 2*int(L)) + 1 // 1..2L, same for every call
	vKnownCrash("C01-F2", n == 0)
	for !eof && calls < n+3 {
		buf := make([]byte, bsz)
		k, err := rd.Read(buf)
		vAssert(k >= 0 && k <= bsz, "read-count-in-range")
		out = append(out, buf[:k]...)
		if err == io.EOF {
			eof = true
		} else {
			vAssert(err == nil, "read-no-error")
			vAssert(k > 0, "read-makes-progress")
		}
		calls++
		if bsz > int(L) && k > int(L) {
			vCover("read-spans-leaves")
		}
	}
	vAssert(eof, "read-reaches-eof")
	vAssert(len(out) == n, "read-total-length")
	if len(out) == n {
		vAssert(vBytesEqual(out, content), "read-bytes-equal")
	}
	vObserve("out", out)
	if vNumLeaves(n, L) >= 2 {
		vCover("multi-leaf")
	}
}

// ---- H-ReadAt: random access ----------------------------------------------------

func VerifC01ReadAt() {
	vTerminates()
	vBudget(4000000)
	L, n := vLeafParams()
	content := vBytes("c", n)
	store := newVStore("blob")
	prefetch := 0
	if vThorough() {
		prefetch = vChoose("prefetch", 2)
	}
	fs := vNewFs(store, L, 1, prefetch)
	key := vStoreObject(store, content, L)
	vShortReads(store)
	rd, err := fs.GetAt(context.Background(), key)
	vAssert(err == nil, "getat-no-error")
	rounds := 1
	if vThorough() {
		rounds = 2 // second round hits the buffer cache
	}
	for r := 0; r < rounds; r++ {
		off := vChoose("off", n+int(L)+1)
		ln := vChoose("len", 2*int(L)+2)
		buf := make([]byte, ln)
		m := vNumLeaves(n, L)
		vKnownCrash("C01-F3", off > n && off < m*int(L))
		k, err := rd.ReadAt(buf, int64(off))
		want := n - off
		if want < 0 {
			want = 0
		}
		if want > ln {
			want = ln
		}
		vAssert(err == nil || err == io.EOF, "readat-no-error")
		vAssert(k == want, "readat-count")
		if k == want && want > 0 {
			vAssert(vBytesEqual(buf[:k], content[off:off+k]), "readat-bytes-equal")
		}
		vObserve("k", k)
		if off >= n {
			vCover("past-eof")
		}
	}
	if vNumLeaves(n, L) >= 2 {
		vCover("multi-leaf")
	}
}

// ---- H-WriteTo: streaming ------------------------------------------------------

type vWriterAt struct {
	mu  sync.Mutex
	buf []byte
	max int
}

func (w *vWriterAt) WriteAt(p []byte, off int64) (int, error) {
	w.mu.Lock()
	defer w.mu.Unlock()
	end := int(off) + len(p)
	for len(w.buf) < end {
		w.buf = append(w.buf, 0)
	}
	copy(w.buf[off:], p)
	return len(p), nil
}

// Write makes *vWriterAt an io.Writer too (io.Copy needs one); WriteTo must prefer WriteAt.
func (w *vWriterAt) Write(p []byte) (int, error) {
	vAssert(false, "writer-at-destination-used-through-write")
	return len(p), nil
}

func VerifC01WriteTo() {
	vTerminates()
	vBudget(4000000)
	L, n := vLeafParams()
	content := vBytes("c", n)
	store := newVStore("blob")
	fs := vNewFs(store, L, 1, 0)
	key := vStoreObject(store, content, L)
	vShortReads(store)
	rd, err := fs.Get(context.Background(), key)
	vAssert(err == nil, "get-no-error")
	wt := rd.(io.WriterTo)
	var got []byte
	var cnt int64
	vKnownCrash("C01-F2", n == 0)
	if vChoose("dest", 2) == 0 {
		vCover("plain-writer")
		sink := &vSink{}
		cnt, err = wt.WriteTo(sink)
		got = sink.b
	} else {
		vCover("writer-at")
		wa := &vWriterAt{}
		cnt, err = wt.WriteTo(wa)
		got = wa.buf
	}
	vAssert(err == nil, "writeto-no-error")
	vAssert(cnt == int64(n), "writeto-count")
	vAssert(len(got) == n, "writeto-length")
	if len(got) == n {
		vAssert(vBytesEqual(got, content), "writeto-bytes-equal")
	}
	if vNumLeaves(n, L) >= 2 {
		vCover("multi-leaf")
	}
}
