//verif:pkg pkg/cafs
//verif:use store,cafshelp
//verif:assume leaf sizes 2..4 bytes injected below cafs.New's [64 B, 5 MiB] guard (the write/read code is parametric in the leaf size; New's guards are checked separately); content up to 3 leaves + 1 byte
//verif:assume BLAKE2b modelled as an injective uninterpreted function of (tree parameters, input)
//verif:assume object store = in-memory model with GCS semantics (put-atomic, readers may return short reads and io.EOF with or after the last bytes)
//verif:cover VerifC01PutLayout multi-leaf exact-multiple empty
//verif:cover VerifC01Read multi-leaf read-spans-leaves
//verif:cover VerifC01ReadAt multi-leaf past-eof
//verif:cover VerifC01WriteTo multi-leaf writer-at plain-writer
package cafs

import (
	"context"
	"io"
	"sync"
)

// ---- H-Put: written size, store layout -----------------------------------

func VerifC01PutLayout() {
	vTerminates()
	vBudget(4000000)
	L, n := vLeafParams()
	content := vBytes("c", n)
	store := newVStore("blob")
	fs := vNewFs(store, L, vChoose("flushes", 2)+1, 0)
	src := vSource(content)
	vKnownCrash("C01-F1", true)
	res, err := fs.Put(context.Background(), src)
	vAssert(err == nil, "put-no-error")
	vAssert(res.Written == int64(n), "written-size")
	vObserve("written", res.Written)
	m := vNumLeaves(n, L)
	vAssert(len(res.Keys) == m*KeySize, "leaf-key-count")
	// every leaf blob holds exactly its slice of the content, root blob = leaf keys ++ root key
	for i := 0; i < m; i++ {
		var k Key
		copy(k[:], res.Keys[i*KeySize:(i+1)*KeySize])
		b, ok := store.data[k.String()]
		vAssert(ok, "leaf-blob-present")
		hi := (i + 1) * int(L)
		if hi > n {
			hi = n
		}
		vAssert(vBytesEqual(b, content[i*int(L):hi]), "leaf-blob-content")
	}
	rb, ok := store.data[res.Key.String()]
	vAssert(ok, "root-blob-present")
	vAssert(len(rb) == (m+1)*KeySize, "root-blob-size")
	if len(rb) == (m+1)*KeySize {
		vAssert(vBytesEqual(rb[:m*KeySize], res.Keys), "root-blob-lists-leaf-keys")
		vAssert(vBytesEqual(rb[m*KeySize:], res.Key[:]), "root-blob-ends-with-root-key")
	}
	if m >= 2 {
		vCover("multi-leaf")
	}
	if n > 0 && n%int(L) == 0 {
		vCover("exact-multiple")
	}
	if n == 0 {
		vCover("empty")
	}
}

// ---- H-Read: sequential reads ------------------------------------------------

func VerifC01Read() {
	vTerminates()
	vBudget(4000000)
	L, n := vLeafParams()
	content := vBytes("c", n)
	store := newVStore("blob")
	fs := vNewFs(store, L, 1, 0)
	key := vStoreObject(store, content, L)
	vShortReads(store)
	rd, err := fs.Get(context.Background(), key)
	vAssert(err == nil, "get-no-error")
	var out []byte
	eof := false
	calls := 0
	bsz := vChoose("bufSize", 2*int(L)) + 1 // 1..2L, same for every call
	vKnownCrash("C01-F2", n == 0)
	for !eof && calls < n+3 {
		buf := make([]byte, bsz)
		k, err := rd.Read(buf)
		vAssert(k >= 0 && k <= bsz, "read-count-in-range")
		out = append(out, buf[:k]...)
		if err == io.EOF {
			eof = true
		} else {
			vAssert(err == nil, "read-no-error")
			vAssert(k > 0, "read-makes-progress")
		}
		calls++
		if bsz > int(L) && k > int(L) {
			vCover("read-spans-leaves")
		}
	}
	vAssert(eof, "read-reaches-eof")
	vAssert(len(out) == n, "read-total-length")
	if len(out) == n {
		vAssert(vBytesEqual(out, content), "read-bytes-equal")
	}
	vObserve("out", out)
	if vNumLeaves(n, L) >= 2 {
		vCover("multi-leaf")
	}
}

// ---- H-ReadAt: random access ----------------------------------------------------

func VerifC01ReadAt() {
	vTerminates()
	vBudget(4000000)
	L, n := vLeafParams()
	content := vBytes("c", n)
	store := newVStore("blob")
	prefetch := 0
	if vThorough() {
		prefetch = vChoose("prefetch", 2)
	}
	fs := vNewFs(store, L, 1, prefetch)
	key := vStoreObject(store, content, L)
	vShortReads(store)
	rd, err := fs.GetAt(context.Background(), key)
	vAssert(err == nil, "getat-no-error")
	rounds := 1
	if vThorough() {
		rounds = 2 // second round hits the buffer cache
	}
	for r := 0; r < rounds; r++ {
		off := vChoose("off", n+int(L)+1)
		ln := vChoose("len", 2*int(L)+2)
		buf := make([]byte, ln)
		m := vNumLeaves(n, L)
		vKnownCrash("C01-F3", off > n && off < m*int(L))
		k, err := rd.ReadAt(buf, int64(off))
		want := n - off
		if want < 0 {
			want = 0
		}
		if want > ln {
			want = ln
		}
		vAssert(err == nil || err == io.EOF, "readat-no-error")
		vAssert(k == want, "readat-count")
		if k == want && want > 0 {
			vAssert(vBytesEqual(buf[:k], content[off:off+k]), "readat-bytes-equal")
		}
		vObserve("k", k)
		if off >= n {
			vCover("past-eof")
		}
	}
	if vNumLeaves(n, L) >= 2 {
		vCover("multi-leaf")
	}
}

// ---- H-WriteTo: streaming ------------------------------------------------------

type vWriterAt struct {
	mu  sync.Mutex
	buf []byte
	max int
}

func (w *vWriterAt) WriteAt(p []byte, off int64) (int, error) {
	w.mu.Lock()
	defer w.mu.Unlock()
	end := int(off) + len(p)
	for len(w.buf) < end {
		w.buf = append(w.buf, 0)
	}
	copy(w.buf[off:], p)
	return len(p), nil
}

// Write makes *vWriterAt an io.Writer too (io.Copy needs one); WriteTo must prefer WriteAt.
func (w *vWriterAt) Write(p []byte) (int, error) {
	vAssert(false, "writer-at-destination-used-through-write")
	return len(p), nil
}

func VerifC01WriteTo() {
	vTerminates()
	vBudget(4000000)
	L, n := vLeafParams()
	content := vBytes("c", n)
	store := newVStore("blob")
	fs := vNewFs(store, L, 1, 0)
	key := vStoreObject(store, content, L)
	vShortReads(store)
	rd, err := fs.Get(context.Background(), key)
	vAssert(err == nil, "get-no-error")
	wt := rd.(io.WriterTo)
	var got []byte
	var cnt int64
	vKnownCrash("C01-F2", n == 0)
	if vChoose("dest", 2) == 0 {
		vCover("plain-writer")
		sink := &vSink{}
		cnt, err = wt.WriteTo(sink)
		got = sink.b
	} else {
		vCover("writer-at")
		wa := &vWriterAt{}
		cnt, err = wt.WriteTo(wa)
		got = wa.buf
	}
	vAssert(err == nil, "writeto-no-error")
	vAssert(cnt == int64(n), "writeto-count")
	vAssert(len(got) == n, "writeto-length")
	if len(got) == n {
		vAssert(vBytesEqual(got, content), "writeto-bytes-equal")
	}
	if vNumLeaves(n, L) >= 2 {
		vCover("multi-leaf")
	}
}
