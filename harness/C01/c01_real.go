//verif:pkg pkg/cafs
//verif:use store,cafshelp
//verif:assume real-leaf-size harness: the store is built by cafs.New itself (its 64 B..5 MiB guard included) with the minimum permitted leaf size 64; content lengths at the boundaries {0, 1, 63, 64, 65, 127, 128, 129}; the bytes at offsets 0, 63, 64, 127, 128 are symbolic, the others a fixed pattern; optionally the store already holds the objects of the same content with one of them (any one) emptied, as an interrupted upload leaves them
//verif:cover VerifC01RealLeaf empty exact-one-leaf one-past-leaf two-leaves-plus-one one-big-write chunked empty-leftover-object
package cafs

import (
	"bytes"
	"context"
	"io"

	"go.uber.org/zap"
)

// VerifC01RealLeaf: store and read back through cafs.New at a permitted leaf size, at the leaf boundaries.
func VerifC01RealLeaf() {
	vTerminates()
	vBudget(60000000)
	vUnwind(100000)
	lengths := []int{0, 1, 63, 64, 65, 127, 128, 129}
	n := lengths[vChoose("length", len(lengths))]
	content := make([]byte, n)
	for i := range content {
		content[i] = byte(31*i + 7)
	}
	for _, p := range []int{0, 63, 64, 127, 128} {
		if p < n {
			content[p] = vByte("c", 0, 255)
		}
	}
	switch n {
	case 0:
		vCover("empty")
	case 64:
		vCover("exact-one-leaf")
	case 65:
		vCover("one-past-leaf")
	case 129:
		vCover("two-leaves-plus-one")
	}
	store := newVStore("blob")
	fs, err := New(LeafSize(64), Backend(store), Logger(zap.NewNop()), ConcurrentFlushes(vChoose("flushes", 2)+1))
	vAssert(err == nil, "new")
	var src io.Reader
	if vChoose("srcKind", 2) == 0 {
		vCover("one-big-write")
		src = bytes.NewReader(content)
	} else {
		vCover("chunked")
		src = &vChunkSrc{b: content, sizes: []int{[]int{1, 63, 64, 65}[vChoose("chunk", 4)], 1000}}
	}
	ctx := context.Background()
	// the leftover of an earlier, interrupted upload of the same content: one of its objects exists but is empty
	if victim := vChoose("emptyLeftover", 5); victim > 0 {
		fs0, err := New(LeafSize(64), Backend(store), Logger(zap.NewNop()))
		vAssert(err == nil, "new")
		res0, err := fs0.Put(ctx, bytes.NewReader(content))
		vAssert(err == nil, "put-no-error")
		// victim 1: the root object; victim k+2: the k-th leaf
		name := ""
		if victim == 1 {
			name = res0.Key.StringWithPrefix("")
		} else if 64*(victim-1) <= len(res0.Keys) {
			var lk Key
			copy(lk[:], res0.Keys[64*(victim-2):64*(victim-1)])
			name = lk.StringWithPrefix("")
		}
		if _, ok := store.data[name]; ok {
			vCover("empty-leftover-object")
			store.data[name] = []byte{}
		}
	}
	res, err := fs.Put(ctx, src)
	vAssert(err == nil, "put-no-error")
	vAssert(res.Written == int64(n), "written-size")
	// sequential read through a fresh instance (no key cache)
	fs2, err := New(LeafSize(64), Backend(store), Logger(zap.NewNop()))
	vAssert(err == nil, "new")
	rd, err := fs2.Get(ctx, res.Key)
	vAssert(err == nil, "get-no-error")
	got, err := io.ReadAll(rd)
	vAssert(err == nil, "read-no-error")
	vAssert(len(got) == n, "read-length")
	if len(got) == n {
		vAssert(vBytesEqual(got, content), "read-bytes-equal")
	}
	// random access: a window around the first leaf boundary
	ra, err := fs2.GetAt(ctx, res.Key)
	vAssert(err == nil, "getat-no-error")
	off := []int{0, 62, 64, 128, 200}[vChoose("off", 5)]
	buf := make([]byte, 4)
	k, err := ra.ReadAt(buf, int64(off))
	vAssert(err == nil || err == io.EOF, "readat-no-error")
	want := 0
	if off < n {
		want = n - off
		if want > 4 {
			want = 4
		}
	}
	vAssert(k == want, "readat-count")
	if k == want && want > 0 {
		vAssert(vBytesEqual(buf[:want], content[off:off+want]), "readat-bytes-equal")
	}
	// streaming to a writer
	rd2, err := fs2.Get(ctx, res.Key)
	vAssert(err == nil, "get-no-error")
	sink := &vSink{}
	wn, err := rd2.(io.WriterTo).WriteTo(sink)
	vAssert(err == nil && wn == int64(n), "writeto-count")
	if len(sink.b) == n {
		vAssert(vBytesEqual(sink.b, content), "writeto-bytes-equal")
	}
}
