//verif:pkg pkg/core
//verif:use store,corehelp
//verif:assume repository r with three (thorough: four) bundle ids in id order, each absent / committed (descriptor + 2 file lists) / leftover of an interrupted upload (file lists, no descriptor); a semver-like label v1.0.0 and a plain label latest, each absent or pointing at one of the committed bundles; retain-N 1..2 (thorough 1..3); retain-tags in {none, all labels, semver labels, both options together}; a second repository r2 whose name extends r's; stores are the in-memory model (deleting a missing key is an error, as on GCS; thorough: also the silent variant)
//verif:assume squash under faults: repository r with three committed bundles (two file lists each), a leftover of an interrupted upload after them, label v1.0.0 on the first and latest on the second bundle; retain 1, with or without retained labels; one transient fault at a solver-chosen store call of the squash (listings and reads included)
//verif:cover VerifC10SquashFaults squash-failed squash-survived-the-fault
//verif:cover VerifC10Squash both-tag-options leftover-newer-than-latest-commit label-retained label-removed nothing-to-squash
package core

import (
	"github.com/oneconcern/datamon/pkg/model"
)

func VerifC10Squash() {
	vBudget(100000000)
	vUnwind(50000)
	meta := newVStore("meta")
	vmeta := newVStore("vmeta")
	blob := newVStore("blob")
	blob.putRaw("some-root-key", []byte("root"))
	blob.putRaw("some-leaf-key", []byte("leaf"))
	beforeB := vSnapshot(blob)
	stores := vCtxStoresAll(meta, vmeta, blob)
	vPutRepo(meta, "r")
	vPutRepo(meta, "r2")
	vPutBundle(meta, "r2", vB1, 1, true)
	vmeta.putRaw(model.GetArchivePathToLabel("r2", "v1.0.0"), vYaml(model.LabelDescriptor{Name: "v1.0.0", BundleID: vB1}))
	ids := []string{vB1, vB2, vB3}
	if vThorough() {
		ids = append(ids, "1c2PPkGSFwzlGuXIzGvRlK5XYy4")
		if vChoose("deleteMissingReturnsNil", 2) == 1 {
			meta.deleteMissingOK = true
			vmeta.deleteMissingOK = true
		}
	}
	var committed []string
	lastState := 0
	leftoverAfterCommit := false
	for _, id := range ids {
		st := vChoose("state", 3)
		switch st {
		case 1:
			vPutBundle(meta, "r", id, 2, true)
			committed = append(committed, id)
			leftoverAfterCommit = false
		case 2:
			vPutBundle(meta, "r", id, 2, false)
			if len(committed) > 0 {
				leftoverAfterCommit = true
			}
		}
		if st != 0 {
			lastState = st
		}
	}
	_ = lastState
	if leftoverAfterCommit {
		vCover("leftover-newer-than-latest-commit")
	}
	labels := map[string]string{}
	for _, l := range []string{"v1.0.0", "latest"} {
		k := vChoose("label_"+l, len(committed)+1)
		if k > 0 {
			labels[l] = committed[k-1]
			vmeta.putRaw(model.GetArchivePathToLabel("r", l), vYaml(model.LabelDescriptor{Name: l, BundleID: committed[k-1]}))
		}
	}
	maxN := 2
	if vThorough() {
		maxN = 3
	}
	N := vInt("retainN", 1, maxN) // symbolic: squash and the reference both branch on it
	mode := vChoose("retainTags", 4) // 0 none, 1 all labels, 2 semver labels, 3 both options together (= all labels)
	opts := []Option{WithRetainNLatest(N)}
	if mode == 1 {
		opts = append(opts, WithRetainTags(true))
	}
	if mode == 2 {
		opts = append(opts, WithRetainSemverTags(true))
	}
	if mode == 3 {
		opts = append(opts, WithRetainSemverTags(true), WithRetainTags(true))
		mode = 1
		vCover("both-tag-options")
	}
	beforeM, beforeV := vSnapshot(meta), vSnapshot(vmeta)

	err := RepoSquash(stores, "r", opts...)
	vAssert(err == nil, "squash-succeeds")

	// reference: the N most recent committed bundles, plus label targets when asked to
	keep := map[string]bool{}
	for i := len(committed) - 1; i >= 0 && len(committed)-i <= N; i-- {
		keep[committed[i]] = true
	}
	if mode == 1 {
		for _, b := range labels {
			keep[b] = true
		}
	}
	if mode == 2 {
		if b, ok := labels["v1.0.0"]; ok {
			keep[b] = true
		}
	}
	if len(keep) == len(committed) {
		vCover("nothing-to-squash")
	}
	for _, id := range committed {
		_, has := meta.data[model.GetArchivePathToBundle("r", id)]
		if keep[id] {
			vAssert(has, "kept-bundle-survives")
			for _, k := range []string{model.GetArchivePathToBundle("r", id), model.GetArchivePathToBundleFileList("r", id, 0), model.GetArchivePathToBundleFileList("r", id, 1)} {
				nv, ok := meta.data[k]
				vAssert(ok && string(nv) == beforeM[k], "kept-bundle-metadata-unchanged")
			}
		} else {
			vAssert(!has, "other-bundles-are-removed")
			_, l0 := meta.data[model.GetArchivePathToBundleFileList("r", id, 0)]
			_, l1 := meta.data[model.GetArchivePathToBundleFileList("r", id, 1)]
			vAssert(!l0 && !l1, "removed-bundle-leaves-no-file-list")
		}
	}
	if len(committed) > 0 {
		_, has := meta.data[model.GetArchivePathToBundle("r", committed[len(committed)-1])]
		vAssert(has, "most-recent-committed-bundle-survives")
	}
	for l, b := range labels {
		nv, has := vmeta.data[model.GetArchivePathToLabel("r", l)]
		if keep[b] {
			vCover("label-retained")
			vAssert(has && string(nv) == beforeV[model.GetArchivePathToLabel("r", l)], "label-of-kept-bundle-intact")
		} else {
			vCover("label-removed")
			vAssert(!has, "label-of-removed-bundle-is-removed")
		}
	}
	vAssertSame(beforeB, blob, []string{""}, "squash-leaves-the-blob-store-alone") // content of kept bundles stays downloadable: blobs are only ever removed by purge
	vAssertSame(beforeM, meta, []string{"repos/", "bundles/r2/"}, "repositories-and-other-bundles-untouched")
	vAssertSame(beforeV, vmeta, []string{"labels/r2/"}, "other-repository-labels-untouched")
	// observers agree
	got, e := ListBundles("r", stores)
	vAssert(e == nil && len(got) == len(keep), "listing-after-squash-shows-exactly-the-kept-bundles")
}

// VerifC10SquashFaults: one transient store fault at any store call of a squash: whatever it reports, no bundle it
// was to keep loses anything and the most recent committed bundle survives; a label is only removed together with its bundle (squash tolerates
// failed deletions, so exactness under faults is not required).
func VerifC10SquashFaults() {
	vBudget(300000000)
	vUnwind(50000)
	meta := newVStore("meta")
	vmeta := newVStore("vmeta")
	stores := vCtxStoresAll(meta, vmeta, newVStore("blob"))
	vPutRepo(meta, "r")
	committed := []string{vB1, vB2, vB3}
	for _, id := range committed {
		vPutBundle(meta, "r", id, 2, true)
	}
	vPutBundle(meta, "r", "1c2PPkGSFwzlGuXIzGvRlK5XYy4", 2, false) // leftover of an interrupted upload, newest id
	labels := map[string]string{"v1.0.0": vB1, "latest": vB2}
	for l, b := range labels {
		vmeta.putRaw(model.GetArchivePathToLabel("r", l), vYaml(model.LabelDescriptor{Name: l, BundleID: b}))
	}
	keep := map[string]bool{vB3: true}
	opts := []Option{WithRetainNLatest(1)}
	if vChoose("retainTags", 2) == 1 {
		opts = append(opts, WithRetainTags(true))
		keep[vB1], keep[vB2] = true, true
	}
	beforeM, beforeV := vSnapshot(meta), vSnapshot(vmeta)
	cr := &vCrasher{stores: []*vStore{meta, vmeta}, allCalls: true, transient: true}
	cr.crashAt = vInt("faultAt", 1, 40)
	cr.install()
	err := RepoSquash(stores, "r", opts...)
	cr.revive()
	vAssume(cr.crashed)
	for _, id := range committed {
		if keep[id] {
			for _, k := range []string{model.GetArchivePathToBundle("r", id), model.GetArchivePathToBundleFileList("r", id, 0), model.GetArchivePathToBundleFileList("r", id, 1)} {
				nv, ok := meta.data[k]
				vAssert(ok && string(nv) == beforeM[k], "kept-bundle-metadata-unchanged")
			}
		}
	}
	for l, b := range labels {
		if keep[b] {
			nv, has := vmeta.data[model.GetArchivePathToLabel("r", l)]
			vAssert(has && string(nv) == beforeV[model.GetArchivePathToLabel("r", l)], "label-of-kept-bundle-intact")
		}
	}
	if err != nil {
		vCover("squash-failed")
		return
	}
	vCover("squash-survived-the-fault")
	// squash tolerates failed deletions (it asks DeleteBundle to ignore them and a later squash finishes the job),
	// so exactness is not required here; what it removed must still be consistent: a label goes only with its bundle
	for l, b := range labels {
		_, hasLabel := vmeta.data[model.GetArchivePathToLabel("r", l)]
		_, hasBundle := meta.data[model.GetArchivePathToBundle("r", b)]
		vAssert(hasLabel || !hasBundle, "a-label-is-removed-only-with-its-bundle")
	}
}
