//verif:pkg pkg/cafs
//verif:use store,cafshelp
//verif:assume BLAKE2b (minio/blake2b-simd) is an injective uninterpreted function of (parameter block, input): that the library computes BLAKE2b, and collision resistance, are outside this check
//verif:assume reference convention (docs/blake2.md and the checked-in testdata): unlimited fanout (fanout 0, max depth 2, inner hash size 64, leaf size L); full leaf i (0-based) is hashed at depth 0 with node offset i+1; a trailing partial leaf is hashed with node offset = number of full leaves and the last-node flag; the key is the depth-1, offset-0, last-node hash of the leaf keys in order
//verif:assume leaf sizes 2..4 bytes injected below cafs.New's guard (the code is parametric in the leaf size); content up to 2 leaves + 1 byte (thorough 3 leaves + 1), every byte symbolic; every chunking (one big write or two solver-sized chunks); 1..2 concurrent flushes; key prefix empty or non-empty; where the store reports CRC32C checksums the content is concrete (whole-buffer CRC over symbolic bytes is out of the solvers' reach)
//verif:cover VerifC02Key multi-leaf exact-multiple empty partial-tail
//verif:assume many leaves: leaf size 2, contents of 33..37 bytes (17..19 leaves: beyond one 16-key batch of the root hasher), the bytes of the first, the 16th and the 17th leaf symbolic, the others a fixed pattern
//verif:cover VerifC02ManyLeaves seventeen-leaves partial-tail
//verif:assume concurrent puts: two instances store contents of two leaves (leaf size 2; equal, or sharing the first leaf, symbolic bytes) into one blob store, interleaved at store-call granularity with at most two hand-overs
//verif:cover VerifC02ConcurrentPuts same-content shared-leaf switched
//verif:cover VerifC02Dedup duplicate-found emptied-blob-rewritten crc-mismatch-rewritten different-content prefixed store-without-touch
package cafs

import (
	"bytes"
	"context"
	"io"

	blake2b "github.com/minio/blake2b-simd"
)

func vRefHash(data []byte, L uint32, offset uint64, depth uint8, last bool) Key {
	h, err := blake2b.New(&blake2b.Config{
		Size: blake2b.Size,
		Tree: &blake2b.Tree{Fanout: 0, MaxDepth: 2, LeafSize: L, NodeOffset: offset, NodeDepth: depth, InnerHashSize: blake2b.Size, IsLastNode: last},
	})
	vAssert(err == nil, "reference-hasher")
	_, _ = h.Write(data)
	return MustNewKey(h.Sum(nil))
}

// vRefKey is the reference tree hash, written from the documented convention (not from the code under test).
func vRefKey(content []byte, L uint32) (Key, []Key) {
	var leaves []Key
	n := len(content)
	full := n / int(L)
	for i := 0; i < full; i++ {
		leaves = append(leaves, vRefHash(content[i*int(L):(i+1)*int(L)], L, uint64(i+1), 0, false))
	}
	if n%int(L) != 0 {
		leaves = append(leaves, vRefHash(content[full*int(L):], L, uint64(full), 0, true))
	}
	var cat []byte
	for _, k := range leaves {
		cat = append(cat, k[:]...)
	}
	return vRefHash(cat, L, 0, 1, true), leaves
}

// VerifC02Key: the key depends only on content and leaf size and equals the reference tree hash,
// whatever the chunking, the flush concurrency and what the store already held.
func VerifC02Key() {
	vTerminates()
	vBudget(6000000)
	L, n := vLeafParams()
	content := vBytes("c", n)
	store := newVStore("blob")
	if vChoose("storeHolds", 2) == 1 {
		// the store already holds the object (stored earlier through another instance)
		pre := vNewFs(store, L, 1, 0)
		_, err := pre.Put(context.Background(), &vChunkSrc{b: content})
		vAssert(err == nil, "first-put")
	}
	fs := vNewFs(store, L, vChoose("flushes", 2)+1, 0)
	res, err := fs.Put(context.Background(), vSource(content))
	vAssert(err == nil, "put-no-error")
	want, leaves := vRefKey(content, L)
	vAssert(res.Key == want, "key-is-the-reference-tree-hash")
	vAssert(len(res.Keys) == len(leaves)*KeySize, "leaf-key-count")
	for i, k := range leaves {
		if (i+1)*KeySize <= len(res.Keys) {
			var got Key
			copy(got[:], res.Keys[i*KeySize:(i+1)*KeySize])
			vAssert(got == k, "leaf-key-is-the-reference-leaf-hash")
		}
	}
	if len(leaves) >= 2 {
		vCover("multi-leaf")
	}
	if n > 0 && n%int(L) == 0 {
		vCover("exact-multiple")
	}
	if n%int(L) != 0 {
		vCover("partial-tail")
	}
	if n == 0 {
		vCover("empty")
	}
}

// VerifC02ManyLeaves: the root hash covers every leaf key, also beyond the first sixteen.
func VerifC02ManyLeaves() {
	vTerminates()
	vBudget(60000000)
	L := uint32(2)
	n := 33 + vChoose("extra", 5) // 33..37 bytes: 17..19 leaves
	content := make([]byte, n)
	for i := range content {
		content[i] = byte(13*i + 5)
	}
	for _, p := range []int{0, 1, 30, 31, 32, 33} {
		if p < n {
			content[p] = vByte("c", 0, 255)
		}
	}
	store := newVStore("blob")
	fs := vNewFs(store, L, vChoose("flushes", 2)+1, 0)
	var src io.Reader = bytes.NewReader(content) // one big write
	if k := vChoose("chunking", 4); k > 0 {
		src = &vChunkSrc{b: content, sizes: []int{[]int{1, 3, 32}[k-1], []int{31, 2, 1}[k-1], 1000}}
	}
	res, err := fs.Put(context.Background(), src)
	vAssert(err == nil, "put-no-error")
	want, leaves := vRefKey(content, L)
	if len(leaves) == 17 {
		vCover("seventeen-leaves")
	}
	if n%2 == 1 {
		vCover("partial-tail")
	}
	vAssert(res.Key == want, "key-is-the-reference-tree-hash")
	vAssert(len(res.Keys) == len(leaves)*KeySize, "leaf-key-count")
	// a content differing in the 17th leaf only gets another key
	other := append([]byte{}, content...)
	other[32] ^= 1
	fs2 := vNewFs(store, L, 1, 0)
	res2, err := fs2.Put(context.Background(), &vChunkSrc{b: other})
	vAssert(err == nil, "put-no-error")
	vAssert(res2.Key != res.Key, "contents-differing-in-a-late-leaf-get-different-keys")
	vAssert(!res2.Found, "different-content-is-not-reported-as-a-duplicate")
}

// VerifC02ConcurrentPuts: two overlapping Puts into a shared blob store (same content, or contents sharing a
// leaf), every interleaving of their store calls within the bound: both succeed with the reference keys and both
// contents read back through a fresh instance.
func VerifC02ConcurrentPuts() {
	vBudget(60000000)
	L := uint32(2)
	a := vBytes("a", 4)
	b := a
	if vChoose("secondContent", 2) == 1 {
		b = append(append([]byte{}, a[:2]...), vBytes("b", 2)...) // shares the first leaf
		vCover("shared-leaf")
	} else {
		vCover("same-content")
	}
	store := newVStore("blob")
	switched := 0
	store.sched = func() {
		if switched < 2 && vChoose("switch", 2) == 1 {
			switched++
			vYield()
		}
	}
	var ra, rb PutRes
	var ea, eb error
	vTasks(
		func() { ra, ea = vNewFs(store, L, 1, 0).Put(context.Background(), &vChunkSrc{b: a}) },
		func() { rb, eb = vNewFs(store, L, 1, 0).Put(context.Background(), &vChunkSrc{b: b}) },
	)
	store.sched = nil
	if switched > 0 {
		vCover("switched")
	}
	vAssert(ea == nil && eb == nil, "both-puts-succeed")
	wa, _ := vRefKey(a, L)
	wb, _ := vRefKey(b, L)
	vAssert(ra.Key == wa && rb.Key == wb, "key-is-the-reference-tree-hash")
	for _, c := range []struct {
		k Key
		b []byte
	}{{ra.Key, a}, {rb.Key, b}} {
		rd, err := vNewFs(store, L, 1, 0).Get(context.Background(), c.k)
		vAssert(err == nil, "get-no-error")
		got, err := io.ReadAll(rd)
		vAssert(err == nil && vBytesEqual(got, c.b), "content-reads-back")
	}
}

// VerifC02Dedup: storing content that is already present returns the same key, reports a duplicate and leaves
// every existing object's bytes unchanged (unless the stored blob is empty or fails its checksum, in which case it
// is rewritten with the right bytes); different contents get different keys.
func VerifC02Dedup() {
	vTerminates()
	vBudget(6000000)
	L := uint32(vChoose("leaf", 2) + 2) // 2..3
	n := vChoose("n", 2*int(L)+2)
	attrs := vChoose("attrs", 4)
	var a []byte
	if attrs == 1 || attrs == 3 {
		// the store reports CRC32C checksums: the code then checksums the data it is about to write. Whole-buffer
		// CRCs over symbolic bytes are out of the solvers' reach, so the content is concrete in these two cases
		a = make([]byte, n)
		for i := range a {
			a[i] = byte(7*i + 1)
		}
	} else {
		a = vBytes("a", n)
	}
	store := newVStore("blob")
	prefix := ""
	if vChoose("prefixed", 2) == 1 {
		prefix = "p/"
		vCover("prefixed")
	}
	mk := func() *defaultFs {
		f := vNewFs(store, L, 1, 0)
		f.prefix = prefix
		return f
	}
	ctx := context.Background()
	r1, err := mk().Put(ctx, &vChunkSrc{b: a})
	vAssert(err == nil, "first-put")
	vAssert(!r1.Found, "fresh-content-is-not-a-duplicate")
	// the store may report checksums (GCS) or not (local fs); one blob may have been damaged since
	damaged := ""
	switch attrs {
	case 1: // correct checksums reported
		for k, b := range store.data {
			store.crc[k] = vCRC(b)
		}
	case 2: // one blob emptied
		if len(store.keys) > 0 {
			damaged = store.keys[vChoose("which", len(store.keys))]
			store.data[damaged] = []byte{}
			vCover("emptied-blob-rewritten")
		}
	case 3: // one blob's reported checksum does not match the content about to be written
		if len(store.keys) > 0 {
			damaged = store.keys[vChoose("which", len(store.keys))]
			store.crc[damaged] = 1
			vCover("crc-mismatch-rewritten")
		}
	}
	before := vSnapshot(store)
	store.ops = nil
	// backends without Touch (S3 reports "not implemented"): a duplicate is then written again, with the same bytes
	noTouch := vChoose("touchUnsupported", 2) == 1
	if noTouch {
		vCover("store-without-touch")
		store.fail = func(op, key string) error {
			if op == "touch" {
				return errVFault
			}
			return nil
		}
	}
	same := vChoose("secondContent", 2) == 0
	b := a
	if !same {
		if attrs == 1 || attrs == 3 {
			b = make([]byte, n)
			for i := range b {
				b[i] = byte(5*i + 2)
			}
		} else {
			b = vBytes("b", n)
		}
		vCover("different-content")
	}
	r2, err := mk().Put(ctx, &vChunkSrc{b: b})
	vAssert(err == nil, "second-put")
	if same {
		vCover("duplicate-found")
		vAssert(r2.Key == r1.Key, "same-content-same-key")
		vAssert(r2.Found, "already-present-content-is-reported-as-duplicate")
		for k, v := range before {
			if k == damaged {
				continue
			}
			nv, ok := store.data[k]
			vAssert(ok && string(nv) == v, "existing-objects-unchanged")
		}
		for _, o := range store.ops {
			if o.Op == "put" {
				vAssert(o.Key == damaged || noTouch, "healthy-present-blobs-are-not-rewritten")
			}
		}
		if damaged != "" {
			// the damaged blob has been restored to the bytes it must hold
			want, _ := vRefKey(a, L)
			_ = want
			vAssert(len(store.data[damaged]) > 0 || n == 0, "damaged-blob-rewritten")
		}
		vAssert(len(store.data) == len(before), "no-new-object-for-a-duplicate")
	} else {
		if r2.Key == r1.Key {
			vAssert(vBytesEqual(a, b), "different-contents-get-different-keys")
		}
		// whatever was stored before is still there, unchanged
		for k, v := range before {
			if k == damaged {
				continue
			}
			nv, ok := store.data[k]
			vAssert(ok && string(nv) == v, "existing-objects-unchanged-by-another-put")
		}
	}
	if prefix != "" {
		for _, k := range store.keys {
			vAssert(len(k) > 2 && k[:2] == "p/", "objects-live-under-the-configured-prefix")
		}
	}
}
