//verif:pkg pkg/core
//verif:use store,corehelp
//verif:assume stores are the in-memory model; yaml.v2 round-trips opaque documents; interleavings are explored at store-call granularity (a preemption point before every store operation, the solver decides at each whether the other creator runs first)
//verif:assume delete / rename universe: repositories r and r2 (r2's name extends r's); in r up to two bundles (one with two index files, one empty with none) each present or absent, up to two labels; both store behaviours for deleting a missing key (error as GCS, nil as the local file system)
//verif:assume further: DeleteRepo dying at a solver-chosen mutating call (1..12, landed or not) and run again; RenameRepo over plain and checksum-writing (PutCRC) stores with one read or write fault on a file list; RenameRepo racing CreateRepo of the target name with at most two (thorough three) hand-overs; delete-files over a bundle with two file lists under one transient fault at any store call
//verif:cover VerifC09CreateRace second-creator-ran-between
//verif:cover VerifC09DeleteRepo empty-bundle labels-removed
//verif:cover VerifC09DeleteCrash died-mid-delete retry-succeeds
//verif:cover VerifC09RenameRace creator-won-the-race rename-won-the-race
//verif:cover VerifC09Rename bundles-moved labels-moved checksummed-store write-fault file-list-transfer-cut
//verif:cover VerifC09DeleteEntries list-rewritten list-untouched
//verif:cover VerifC09DeleteEntriesFaults delete-files-failed
package core

import (
	"github.com/oneconcern/datamon/pkg/model"
	"gopkg.in/yaml.v2"
)

// VerifC09CreateRace: of two concurrent creators of the same repository exactly one succeeds.
func VerifC09CreateRace() {
	vBudget(100000000)
	meta := newVStore("meta")
	stores := vCtxStoresAll(meta, meta, newVStore("blob"))
	pre := vChoose("preexisting", 2) == 1
	if pre {
		vPutRepo(meta, "r")
	}
	switched := 0
	meta.sched = func() {
		if vChoose("switch", 2) == 1 {
			switched++
			vYield()
		}
	}
	nCreators := 2
	if vThorough() {
		nCreators = 3
	}
	errs := make([]error, nCreators)
	creator := func(k int, desc string) func() {
		return func() {
			errs[k] = CreateRepo(model.RepoDescriptor{Name: "r", Description: desc, Contributor: model.Contributor{Name: "n", Email: "e@x.io"}}, stores)
		}
	}
	if nCreators == 3 {
		vTasks(creator(0, "first"), creator(1, "second"), creator(2, "third"))
	} else {
		vTasks(creator(0, "first"), creator(1, "second"))
	}
	meta.sched = nil
	if switched > 0 {
		vCover("second-creator-ran-between")
	}
	ok := 0
	for k := range errs {
		if errs[k] == nil {
			ok++
		}
	}
	if pre {
		vAssert(ok == 0, "create-refused-when-repository-exists")
	} else {
		vAssert(ok == 1, "exactly-one-concurrent-creator-succeeds")
	}
	// the surviving descriptor is the successful creator's
	b := meta.data[model.GetArchivePathToRepoDescriptor("r")]
	var rd model.RepoDescriptor
	vAssert(yaml.Unmarshal(b, &rd) == nil, "descriptor-readable")
	if !pre {
		for k := range errs {
			if errs[k] == nil {
				want := []string{"first", "second", "third"}[k]
				vAssert(rd.Description == want, "descriptor-is-the-winners")
			}
		}
	}
	nPut := 0
	for _, o := range meta.ops {
		if o.Op == "put" {
			nPut++
			vAssert(o.Key == model.GetArchivePathToRepoDescriptor("r"), "create-writes-only-the-repo-descriptor")
		}
	}
	if pre {
		vAssert(nPut == 0, "refused-create-writes-nothing")
	} else {
		vAssert(nPut == 1, "one-descriptor-write-lands")
	}
}

type vRepoFixture struct {
	meta, vmeta *vStore
	bundles     []string // bundle ids present in r
	labels      map[string]string
}

func vRepoUniverse(withLeftover bool) *vRepoFixture {
	f := &vRepoFixture{meta: newVStore("meta"), vmeta: newVStore("vmeta"), labels: map[string]string{}}
	vPutRepo(f.meta, "r")
	vPutRepo(f.meta, "r2")
	vPutBundle(f.meta, "r2", vB1, 1, true)
	f.vmeta.putRaw(model.GetArchivePathToLabel("r2", "v1"), vYaml(model.LabelDescriptor{Name: "v1", BundleID: vB1}))
	if vChoose("hasB1", 2) == 1 {
		// two index files with entries
		f.meta.putRaw(model.GetArchivePathToBundleFileList("r", vB1, 0), vYaml(model.BundleEntries{BundleEntries: []model.BundleEntry{{NameWithPath: "a", Hash: "h1", Size: 1}, {NameWithPath: "b", Hash: "h2", Size: 2}}}))
		f.meta.putRaw(model.GetArchivePathToBundleFileList("r", vB1, 1), vYaml(model.BundleEntries{BundleEntries: []model.BundleEntry{{NameWithPath: "c", Hash: "h3", Size: 3}}}))
		f.meta.putRaw(model.GetArchivePathToBundle("r", vB1), vYaml(model.BundleDescriptor{ID: vB1, LeafSize: 64, Deduplication: "blake", BundleEntriesFileCount: 2, Message: "one"}))
		f.bundles = append(f.bundles, vB1)
	}
	if vChoose("hasB2", 2) == 1 {
		vPutBundle(f.meta, "r", vB2, 0, true) // an empty bundle: no index file
		f.bundles = append(f.bundles, vB2)
	}
	for _, l := range []string{"v1", "v1-rc"} {
		if vChoose("has_"+l, 2) == 1 {
			b := vB3 // a label may exist without its bundle (set ahead of the commit, or the bundle deleted on its own)
			if len(f.bundles) > 0 {
				b = f.bundles[vChoose("target_"+l, len(f.bundles))]
			}
			f.vmeta.putRaw(model.GetArchivePathToLabel("r", l), vYaml(model.LabelDescriptor{Name: l, BundleID: b}))
			f.labels[l] = b
		}
	}
	return f
}

// VerifC09DeleteRepo: deleting r removes everything of r and nothing of r2, and terminates.
func VerifC09DeleteRepo() {
	vBudget(3000000) // a correct run takes well under a million instructions
	vUnwind(20000)
	vTerminates()
	f := vRepoUniverse(false)
	stores := vCtxStoresAll(f.meta, f.vmeta, newVStore("blob"))
	missingOK := vChoose("deleteMissingReturnsNil", 2) == 1
	f.meta.deleteMissingOK = missingOK
	f.vmeta.deleteMissingOK = missingOK
	beforeM, beforeV := vSnapshot(f.meta), vSnapshot(f.vmeta)
	for _, b := range f.bundles {
		if b == vB2 {
			vCover("empty-bundle")
		}
	}
	if len(f.labels) > 0 {
		vCover("labels-removed")
	}
	err := DeleteRepo("r", stores)
	vAssert(err == nil, "delete-repo-succeeds")
	vAssert(vKeysUnder(f.meta, "repos/r/") == 0, "repo-descriptor-removed")
	vAssert(vKeysUnder(f.meta, "bundles/r/") == 0, "bundles-and-file-lists-removed")
	vAssert(vKeysUnder(f.vmeta, "labels/r/") == 0, "labels-removed")
	vAssertSame(beforeM, f.meta, []string{"repos/r2/", "bundles/r2/"}, "other-repository-metadata-untouched")
	vAssertSame(beforeV, f.vmeta, []string{"labels/r2/"}, "other-repository-labels-untouched")
	// a later, ordinary operation on the other repository behaves as if the first had never run: deleting r2's
	// bundle removes the bundle, its file list and the label on it, and an unknown bundle is still refused
	vAssert(DeleteBundle("r2", stores, vB3) != nil, "deleting-an-unknown-bundle-is-refused")
	vAssert(DeleteBundle("r2", stores, vB1) == nil, "delete-bundle-succeeds")
	vAssert(vKeysUnder(f.meta, "bundles/r2/") == 0, "bundle-and-file-lists-removed")
	vAssert(vKeysUnder(f.vmeta, "labels/r2/") == 0, "label-on-the-deleted-bundle-removed")
	vAssert(vKeysUnder(f.meta, "repos/r2/") == 1, "repository-descriptor-kept")
}

// VerifC09DeleteCrash: the process running DeleteRepo dies at an arbitrary mutating store call (which did or did
// not land); the deletion is then run again. Whenever the second run reports success, nothing of r is left, and
// nothing of r2 was touched by either run.
func VerifC09DeleteCrash() {
	vBudget(6000000)
	vUnwind(20000)
	f := vRepoUniverse(false)
	stores := vCtxStoresAll(f.meta, f.vmeta, newVStore("blob"))
	beforeM, beforeV := vSnapshot(f.meta), vSnapshot(f.vmeta)
	cr := &vCrasher{stores: []*vStore{f.meta, f.vmeta}}
	cr.crashAt = vInt("crashAt", 1, 12)
	cr.landed = vChoose("landed", 2) == 1
	cr.install()
	err1 := DeleteRepo("r", stores)
	if !cr.crashed {
		vAssert(err1 == nil, "delete-repo-succeeds")
		return
	}
	vCover("died-mid-delete")
	cr.revive()
	if vKeysUnder(f.meta, "repos/r/") == 0 {
		// the first run got as far as the repository descriptor: it was the last thing to go
		vAssert(vKeysUnder(f.meta, "bundles/r/") == 0 && vKeysUnder(f.vmeta, "labels/r/") == 0, "descriptor-is-the-last-object-removed")
		return
	}
	err2 := DeleteRepo("r", stores)
	if err2 == nil {
		vCover("retry-succeeds")
		vAssert(vKeysUnder(f.meta, "repos/r/") == 0, "repo-descriptor-removed")
		vAssert(vKeysUnder(f.meta, "bundles/r/") == 0, "retried-delete-leaves-no-bundle-objects")
		vAssert(vKeysUnder(f.vmeta, "labels/r/") == 0, "retried-delete-leaves-no-labels")
	}
	vAssertSame(beforeM, f.meta, []string{"repos/r2/", "bundles/r2/"}, "other-repository-metadata-untouched")
	vAssertSame(beforeV, f.vmeta, []string{"labels/r2/"}, "other-repository-labels-untouched")
}

// VerifC09Rename: renaming r to n moves every bundle (same ids, same file lists) and label, removes r,
// leaves r2 alone; under a store read fault it returns an error without having removed r.
func VerifC09Rename() {
	vBudget(200000000)
	vUnwind(20000)
	f := vRepoUniverse(false)
	withCRC := vChoose("storeWithCRC", 2) == 1 // metadata stores with or without checksummed writes (GCS has them)
	if withCRC {
		vCover("checksummed-store")
	}
	stores := vCtxStoresKind(f.meta, f.vmeta, newVStore("blob"), withCRC)
	beforeM, beforeV := vSnapshot(f.meta), vSnapshot(f.vmeta)
	fault := vChoose("fault", 4) // 0: none, 1: the k-th read of a file list of r fails, 2: the k-th write of a file list of the new repository fails, 3: the transfer of a file list of r is cut
	cutList := model.GetArchivePathToBundleFileList("r", vB1, 0)
	_, hasList := f.meta.data[cutList]
	if fault == 3 {
		if !hasList {
			vAssume(false)
		}
		vCover("file-list-transfer-cut")
		f.meta.cutAfter = map[string]int{cutList: 1}
	} else if fault > 0 {
		k := vChoose("faultAt", 2)
		n := 0
		f.meta.fail = func(op, key string) error {
			isList := func(prefix string) bool {
				return len(key) > len(prefix) && key[:len(prefix)] == prefix && key[len(key)-len("bundle.yaml"):] != "bundle.yaml"
			}
			if (fault == 1 && op == "get" && isList("bundles/r/")) || (fault == 2 && op == "put" && isList("bundles/n/")) {
				n++
				if n == k+1 {
					if fault == 2 {
						vCover("write-fault")
					}
					return errVFault
				}
			}
			return nil
		}
	}
	var err error
	panicked, _ := vCatch(func() { err = RenameRepo("r", "n", stores) })
	vAssert(!panicked, "rename-does-not-crash")
	if panicked {
		return
	}
	f.meta.fail = nil
	f.meta.cutAfter = nil
	if fault == 3 {
		vAssert(err != nil, "rename-over-a-cut-file-list-transfer-fails")
	}
	if err != nil {
		vAssert(fault > 0, "rename-succeeds-without-faults")
		vAssertSame(beforeM, f.meta, []string{"repos/r/", "bundles/r/", "repos/r2/", "bundles/r2/"}, "failed-rename-keeps-the-original-repository")
		vAssertSame(beforeV, f.vmeta, []string{"labels/r/", "labels/r2/"}, "failed-rename-keeps-the-original-labels")
		return
	}
	for _, o := range f.meta.ops {
		if o.Op == "put-failed" {
			vAssert(false, "rename-hit-by-a-failed-write-reports-failure")
		}
	}
	vAssert(vKeysUnder(f.meta, "repos/r/") == 0 && vKeysUnder(f.meta, "bundles/r/") == 0 && vKeysUnder(f.vmeta, "labels/r/") == 0, "old-repository-removed")
	vAssertSame(beforeM, f.meta, []string{"repos/r2/", "bundles/r2/"}, "other-repository-metadata-untouched")
	vAssertSame(beforeV, f.vmeta, []string{"labels/r2/"}, "other-repository-labels-untouched")
	// every bundle object of r exists under n with the same content (descriptor: same id / count / message)
	nB := 0
	for k, v := range beforeM {
		if len(k) > len("bundles/r/") && k[:len("bundles/r/")] == "bundles/r/" {
			nk := "bundles/n/" + k[len("bundles/r/"):]
			nv, ok := f.meta.data[nk]
			vAssert(ok, "bundle-object-moved")
			if ok && k[len(k)-len("bundle.yaml"):] != "bundle.yaml" {
				vAssert(string(nv) == v, "file-list-content-unchanged")
			}
			nB++
		}
	}
	vAssert(vKeysUnder(f.meta, "bundles/n/") == nB, "no-extra-bundle-objects")
	if nB > 0 {
		vCover("bundles-moved")
	}
	got, e := ListBundles("n", stores)
	vAssert(e == nil && len(got) == len(f.bundles), "renamed-repository-lists-the-same-bundles")
	for i := range got {
		if i < len(f.bundles) {
			vAssert(got[i].ID == f.bundles[i], "same-bundle-ids")
		}
	}
	if fb, ok := f.meta.data[model.GetArchivePathToBundle("n", vB1)]; ok {
		var bd model.BundleDescriptor
		vAssert(yaml.Unmarshal(fb, &bd) == nil && bd.ID == vB1 && bd.BundleEntriesFileCount == 2 && bd.Message == "one", "bundle-descriptor-carried-over")
	}
	labs, e := ListLabels("n", stores)
	vAssert(e == nil && len(labs) == len(f.labels), "renamed-repository-lists-the-same-labels")
	for _, l := range labs {
		vAssert(f.labels[l.Name] == l.BundleID, "label-points-at-the-same-bundle")
		vCover("labels-moved")
	}
}

// VerifC09RenameRace: a rename of r to n races a creator of n, under every interleaving of their metadata store
// calls with at most two hand-overs. Exactly one of them gets the name; when the creator gets it, its new
// repository holds nothing of r and r is intact; when the rename gets it, r has moved as a whole.
func VerifC09RenameRace() {
	vBudget(300000000)
	vUnwind(20000)
	f := vRepoUniverse(false)
	stores := vCtxStoresAll(f.meta, f.vmeta, newVStore("blob"))
	beforeM, beforeV := vSnapshot(f.meta), vSnapshot(f.vmeta)
	nBundleKeys := vKeysUnder(f.meta, "bundles/r/")
	maxSwitch := 2
	if vThorough() {
		maxSwitch = 3
	}
	switched := 0
	f.meta.sched = func() {
		if switched < maxSwitch && vChoose("switch", 2) == 1 {
			switched++
			vYield()
		}
	}
	var errRename, errCreate error
	vTasks(
		func() { errRename = RenameRepo("r", "n", stores) },
		func() {
			errCreate = CreateRepo(model.RepoDescriptor{Name: "n", Description: "fresh", Contributor: model.Contributor{Name: "n", Email: "e@x.io"}}, stores)
		},
	)
	f.meta.sched = nil
	vAssert((errRename == nil) != (errCreate == nil), "exactly-one-of-rename-and-create-gets-the-name")
	var rd model.RepoDescriptor
	vAssert(yaml.Unmarshal(f.meta.data[model.GetArchivePathToRepoDescriptor("n")], &rd) == nil, "descriptor-readable")
	if errCreate == nil {
		if switched > 0 {
			vCover("creator-won-the-race")
		}
		vAssert(rd.Description == "fresh", "descriptor-is-the-winners")
		vAssert(vKeysUnder(f.meta, "bundles/n/") == 0, "losing-rename-leaves-nothing-in-the-creators-repository")
		vAssert(vKeysUnder(f.vmeta, "labels/n/") == 0, "losing-rename-leaves-no-label-in-the-creators-repository")
		vAssertSame(beforeM, f.meta, []string{"repos/r/", "bundles/r/", "repos/r2/", "bundles/r2/"}, "failed-rename-keeps-the-original-repository")
		vAssertSame(beforeV, f.vmeta, []string{"labels/r/", "labels/r2/"}, "failed-rename-keeps-the-original-labels")
		return
	}
	vCover("rename-won-the-race")
	vAssert(rd.Description != "fresh", "descriptor-is-the-winners")
	vAssert(vKeysUnder(f.meta, "repos/r/") == 0 && vKeysUnder(f.meta, "bundles/r/") == 0 && vKeysUnder(f.vmeta, "labels/r/") == 0, "old-repository-removed")
	vAssert(vKeysUnder(f.meta, "bundles/n/") == nBundleKeys, "every-bundle-object-moved")
	vAssert(vKeysUnder(f.vmeta, "labels/n/") == len(f.labels), "every-label-moved")
	vAssertSame(beforeM, f.meta, []string{"repos/r2/", "bundles/r2/"}, "other-repository-metadata-untouched")
	vAssertSame(beforeV, f.vmeta, []string{"labels/r2/"}, "other-repository-labels-untouched")
}

// VerifC09DeleteEntries: deleting files from a repository removes exactly those paths from every bundle's lists.
func VerifC09DeleteEntries() {
	vBudget(200000000)
	vUnwind(20000)
	f := vRepoUniverse(false)
	stores := vCtxStoresAll(f.meta, f.vmeta, newVStore("blob"))
	beforeM, beforeV := vSnapshot(f.meta), vSnapshot(f.vmeta)
	// up to two names to delete, each one symbolic byte (may or may not name a stored path)
	var toDelete []string
	for i := vChoose("toDelete", 3); i > 0; i-- {
		toDelete = append(toDelete, vString("del", 1))
	}
	deleted := func(name string) bool {
		r := false
		for _, d := range toDelete {
			r = vOr(r, vStrEqual(d, name))
		}
		return r
	}
	f.meta.ops = nil
	err := DeleteEntriesFromRepo("r", stores, toDelete)
	vAssert(err == nil, "delete-entries-succeeds")
	for k, v := range beforeM {
		isList := len(k) > len("bundles/r/") && k[:len("bundles/r/")] == "bundles/r/" && k[len(k)-len("bundle.yaml"):] != "bundle.yaml"
		nv, ok := f.meta.data[k]
		vAssert(ok, "no-object-removed")
		if !isList {
			vAssert(string(nv) == v, "descriptors-and-other-repositories-untouched")
			continue
		}
		var old, cur model.BundleEntries
		vAssert(yaml.Unmarshal([]byte(v), &old) == nil && yaml.Unmarshal(nv, &cur) == nil, "lists-readable")
		var want []model.BundleEntry
		for _, e := range old.BundleEntries {
			if !deleted(e.NameWithPath) {
				want = append(want, e)
			}
		}
		vAssert(len(cur.BundleEntries) == len(want), "list-holds-exactly-the-remaining-entries")
		for i := range want {
			if i < len(cur.BundleEntries) {
				vAssert(cur.BundleEntries[i].NameWithPath == want[i].NameWithPath && cur.BundleEntries[i].Hash == want[i].Hash && cur.BundleEntries[i].Size == want[i].Size, "remaining-entries-unchanged-in-order")
			}
		}
		rewritten := false
		for _, o := range f.meta.ops {
			if o.Op == "put" && o.Key == k {
				rewritten = true
			}
		}
		if len(want) != len(old.BundleEntries) {
			vCover("list-rewritten")
		} else {
			vAssert(!rewritten, "unaffected-list-not-rewritten")
			vCover("list-untouched")
		}
	}
	vAssert(len(f.meta.data) == len(beforeM), "no-object-created")
	vAssertSame(beforeV, f.vmeta, []string{"labels/"}, "labels-untouched")
}

// VerifC09DeleteEntriesFaults: deleting the files a and c from a repository whose bundle has two file lists, with one
// transient fault at any store call: when the operation reports success every list holds exactly its remaining
// entries; whatever it reports, no entry that was not named disappears.
func VerifC09DeleteEntriesFaults() {
	vBudget(300000000)
	vUnwind(20000)
	meta, vmeta := newVStore("meta"), newVStore("vmeta")
	stores := vCtxStoresAll(meta, vmeta, newVStore("blob"))
	vPutRepo(meta, "r")
	l0, l1 := model.GetArchivePathToBundleFileList("r", vB1, 0), model.GetArchivePathToBundleFileList("r", vB1, 1)
	meta.putRaw(l0, vYaml(model.BundleEntries{BundleEntries: []model.BundleEntry{{NameWithPath: "a", Hash: "h1", Size: 1}, {NameWithPath: "b", Hash: "h2", Size: 2}}}))
	meta.putRaw(l1, vYaml(model.BundleEntries{BundleEntries: []model.BundleEntry{{NameWithPath: "c", Hash: "h3", Size: 3}, {NameWithPath: "d", Hash: "h4", Size: 4}}}))
	meta.putRaw(model.GetArchivePathToBundle("r", vB1), vYaml(model.BundleDescriptor{ID: vB1, LeafSize: 64, Deduplication: "blake", BundleEntriesFileCount: 2, Message: "one"}))
	cr := &vCrasher{stores: []*vStore{meta, vmeta}, allCalls: true, transient: true}
	cr.crashAt = vInt("faultAt", 1, 30)
	cr.install()
	err := DeleteEntriesFromRepo("r", stores, []string{"a", "c"})
	cr.revive()
	vAssume(cr.crashed)
	names := func(key string) (map[string]bool, bool) {
		b, ok := meta.data[key]
		if !ok {
			return nil, false
		}
		var be model.BundleEntries
		if yaml.Unmarshal(b, &be) != nil {
			return nil, false
		}
		out := map[string]bool{}
		for _, e := range be.BundleEntries {
			out[e.NameWithPath] = true
		}
		return out, true
	}
	n0, ok0 := names(l0)
	n1, ok1 := names(l1)
	vAssert(ok0 && ok1, "every-file-list-still-exists-and-reads")
	vAssert(n0["b"] && n1["d"], "no-entry-that-was-not-named-disappears")
	if err != nil {
		vCover("delete-files-failed")
		return
	}
	vAssert(len(n0) == 1 && len(n1) == 1, "operation-that-reports-success-removed-every-named-path")
}
