//verif:pkg pkg/wal
//verif:use store
//verif:assume stores are the in-memory model: the token generator's update time is the store clock at its last Touch; listings honour a start key (the contract the log is written against); ksuid.NewRandomWithTime yields the given second followed by a fresh, increasing payload (uniqueness / k-sortability of the random part is the library's contract); yaml.v2 round-trips opaque documents
//verif:assume appends happen at solver-chosen non-decreasing seconds (steps of 0, 1 or 5 s); listing universe: entries stamped from-token-time minus {1201, 1200, 1199, 600, 0} s and plus 1 s, each present or absent, max 1..7; entries are read from the store in one read with EOF, in one read followed by a separate EOF, or byte by byte
//verif:cover VerifC19Tokens same-second later-second
//verif:cover VerifC19ListTokens look-back-boundary truncated-by-max
//verif:assume append under a fault: one transient fault at a solver-chosen store call of an append (token generator touch / attribute read, entry write), followed by a fault-free append a second later
//verif:cover VerifC19AddFaults append-failed
//verif:cover VerifC19ListEntries multi-read get-fails empty-payload transfer-cut
//verif:cover VerifC19AppendThenList appended
package wal

import (
	"context"
	"strings"
	"time"

	"github.com/oneconcern/datamon/pkg/model"
	"github.com/oneconcern/datamon/pkg/storage"
	"github.com/segmentio/ksuid"
	"go.uber.org/zap"
)

const vT0 = int64(1700000000)

type vClock struct{ now int64 }

// vWalStores: a mutable store whose Touch stamps the store clock, and an append-only wal store.
func vWalStores(clk *vClock) (mut, wl *vStore) {
	mut, wl = newVStore("mutable"), newVStore("wal")
	stamp := map[string]int64{}
	mut.after = func(op, key string) {
		if op == "put" {
			stamp[key] = clk.now
		}
	}
	mut.fail = func(op, key string) error {
		if op == "touch" {
			stamp[key] = clk.now
		}
		return nil
	}
	mut.attrHook = func(key string, a *storage.Attributes) { a.Updated = time.Unix(stamp[key], 0) }
	return
}

// VerifC19Tokens: every append gets a unique token carrying the time of its own append, and tokens of later seconds sort later.
func VerifC19Tokens() {
	vBudget(50000000)
	clk := &vClock{now: vT0}
	mut, wl := vWalStores(clk)
	w := New(mut, wl, Logger(zap.NewNop()))
	ctx := context.Background()
	steps := []int64{0, 1, 5}
	var tokens []string
	var times []int64
	for i := 0; i < 3; i++ {
		clk.now += steps[vChoose("step", 3)]
		payload := "p" + vString("payload", 2) // two symbolic bytes
		tok, err := w.Add(ctx, payload)
		vAssert(err == nil, "append-succeeds")
		k, perr := ksuid.Parse(tok)
		vAssert(perr == nil, "token-is-a-ksuid")
		vAssert(k.Time().Unix() == clk.now, "token-carries-the-time-of-its-own-append")
		b, ok := wl.data[tok]
		vAssert(ok && vStrEqual(string(b), payload), "entry-stored-under-its-token")
		tokens = append(tokens, tok)
		times = append(times, clk.now)
	}
	for i := range tokens {
		for j := 0; j < i; j++ {
			vAssert(tokens[i] != tokens[j], "tokens-are-unique")
			if times[j] < times[i] {
				vCover("later-second")
				vAssert(tokens[j] < tokens[i], "token-of-a-later-second-sorts-later")
			} else {
				vCover("same-second")
			}
		}
	}
	for _, o := range wl.ops {
		if o.Op == "put" {
			vAssert(o.NoOverw, "entries-are-written-create-if-absent")
		}
	}
}

// VerifC19AddFaults: an append hit by one transient store fault reports the failure and leaves no entry behind, or
// has stored its entry under the token it returns; the next append works and gets a later token.
func VerifC19AddFaults() {
	vBudget(50000000)
	clk := &vClock{now: vT0}
	mut, wl := vWalStores(clk)
	w := New(mut, wl, Logger(zap.NewNop()))
	ctx := context.Background()
	k := vInt("faultAt", 1, 6)
	n, hit := 0, false
	wrap := func(inner func(op, key string) error) func(op, key string) error {
		return func(op, key string) error {
			n++
			if n == k {
				hit = true
				return errVFault
			}
			if inner != nil {
				return inner(op, key)
			}
			return nil
		}
	}
	mut.fail, wl.fail = wrap(mut.fail), wrap(nil)
	clk.now += 3
	tok1, err1 := w.Add(ctx, "first")
	vAssume(hit) // the fault fell into the first append
	n = 1000     // no further fault
	if err1 != nil {
		vCover("append-failed")
		vAssert(len(wl.data) == 0, "failed-append-leaves-no-entry")
	} else {
		b, ok := wl.data[tok1]
		vAssert(ok && string(b) == "first" && len(wl.data) == 1, "entry-stored-under-its-token")
	}
	clk.now++
	tok2, err2 := w.Add(ctx, "second")
	vAssert(err2 == nil, "append-after-a-failed-one-succeeds")
	b, ok := wl.data[tok2]
	vAssert(ok && string(b) == "second", "entry-stored-under-its-token")
	k2, perr := ksuid.Parse(tok2)
	vAssert(perr == nil && k2.Time().Unix() == clk.now, "token-carries-the-time-of-its-own-append")
	if err1 == nil {
		vAssert(tok1 < tok2, "token-of-a-later-second-sorts-later")
	}
}

func vTokenAt(sec int64, fill byte) string {
	p := make([]byte, 16)
	for i := range p {
		p[i] = fill
	}
	k, err := ksuid.FromParts(time.Unix(sec, 0), p)
	vAssert(err == nil, "ksuid")
	return k.String()
}

// vWalUniverse stores well-formed entries around the from-token's time; returns the from token and the expected listing.
func vWalUniverse(wl *vStore) (from string, want []string) {
	fromSec := vT0 + 5000
	from = vTokenAt(fromSec, 0x80)
	offs := []int64{-1201, -1200, -1199, -600, 0, 1}
	fills := []byte{0xff, 0x01, 0x40, 0x40, 0x10, 0x40}
	if vThorough() {
		// two more entries (kept in token order): one in the same second as the from-token with a larger random part, one a day later
		offs = []int64{-1201, -1200, -1199, -600, 0, 0, 1, 86400}
		fills = []byte{0xff, 0x01, 0x40, 0x40, 0x10, 0x90, 0x40, 0x40}
	}
	for i, d := range offs {
		if vChoose("has", 2) == 1 {
			tok := vTokenAt(fromSec+d, fills[i])
			payload := "p" + string(rune('0'+i))
			if i == 3 && vChoose("emptyPayload", 2) == 1 {
				payload = "" // a legal entry without payload
				vCover("empty-payload")
			}
			b, err := model.MarshalWAL(&model.Entry{Token: tok, Payload: payload})
			vAssert(err == nil, "marshal")
			wl.putRaw(tok, b)
			if d >= -1200 {
				want = append(want, tok)
				if d == -1200 {
					vCover("look-back-boundary")
				}
			}
		}
	}
	return
}

// VerifC19ListTokens: listing from a token returns, in token order and up to max, every entry appended in the look-back window before it (20 minutes) and after it.
func VerifC19ListTokens() {
	vBudget(50000000)
	clk := &vClock{now: vT0}
	mut, wl := vWalStores(clk)
	w := New(mut, wl, Logger(zap.NewNop()))
	from, want := vWalUniverse(wl)
	max := vChoose("max", 7) + 1
	got, next, err := w.ListTokens(context.Background(), from, max)
	vAssert(err == nil, "list-tokens-succeeds")
	n := len(want)
	if n > max {
		n = max
		vCover("truncated-by-max")
	}
	vAssert(len(got) == n, "listing-returns-the-window-up-to-max")
	for i := range got {
		if i < len(want) {
			vAssert(got[i] == want[i], "tokens-in-order-starting-at-the-look-back-boundary")
		}
	}
	if len(want) > max {
		vAssert(next == want[max], "next-names-the-following-entry")
	} else {
		vAssert(next == "", "no-next-at-the-end")
	}
}

// VerifC19ListEntries: stored entries come back with token and payload unchanged, in token order, without duplicates, whatever way the store delivers the bytes; a failing read is reported.
func VerifC19ListEntries() {
	vBudget(100000000)
	vUnwind(100000)
	clk := &vClock{now: vT0}
	mut, wl := vWalStores(clk)
	w := New(mut, wl, Logger(zap.NewNop()), MaxConcurrency(2))
	from, want := vWalUniverse(wl)
	switch vChoose("delivery", 3) {
	case 0:
		wl.eofWithData = true // everything with io.EOF in one Read
	case 1:
		// one Read with the data, then a separate Read reporting io.EOF
	case 2:
		wl.readChunk = func(rem int) int { return 1 }
		vCover("multi-read")
	}
	failing := ""
	failIdx := -1
	if how := vChoose("getFails", 3); len(want) > 0 && how > 0 {
		failIdx = vChoose("which", len(want))
		failing = want[failIdx]
		if how == 1 {
			wl.fail = func(op, key string) error {
				if op == "get" && key == failing {
					return errVFault
				}
				return nil
			}
			vCover("get-fails")
		} else {
			// the transfer of that entry is cut after some bytes
			n := len(wl.data[failing])
			cut := []int{0, 1, n - 1}[vChoose("cutAt", 3)] // before the first byte, after it, before the last one
			wl.cutAfter = map[string]int{failing: cut}
			vCover("transfer-cut")
		}
	}
	max := vChoose("max", 3) + 5
	entries, _, err := w.ListEntries(context.Background(), from, max)
	if failing != "" && failIdx < max {
		vAssert(err != nil, "a-failed-read-is-reported")
		return
	}
	if failing != "" {
		return // the unreadable entry lies beyond the requested maximum: it is not read at all
	}
	vAssert(err == nil, "list-entries-succeeds")
	if len(want) > max {
		want = want[:max] // the listing stops at the requested maximum
	}
	vAssert(len(entries) == len(want), "every-entry-in-the-window-is-returned-once")
	for i, e := range entries {
		if i < len(want) {
			vAssert(e.Token == want[i], "entries-in-token-order")
			var stored model.Entry
			se, uerr := model.UnmarshalWAL(wl.data[want[i]])
			vAssert(uerr == nil, "stored-entry-readable")
			stored = *se
			vAssert(e.Payload == stored.Payload && (e.Payload == "" || strings.HasPrefix(e.Payload, "p")), "payload-unchanged")
		}
	}
}

// VerifC19AppendThenList: an entry appended through Add is returned by ListEntries with its token and payload.
func VerifC19AppendThenList() {
	vBudget(100000000)
	vUnwind(100000)
	clk := &vClock{now: vT0}
	mut, wl := vWalStores(clk)
	wl.eofWithData = true
	w := New(mut, wl, Logger(zap.NewNop()), MaxConcurrency(2))
	ctx := context.Background()
	clk.now += 3
	tok, err := w.Add(ctx, "hello")
	vAssert(err == nil, "append-succeeds")
	vCover("appended")
	entries, _, err := w.ListEntries(ctx, tok, 10)
	// known finding C19-F1: Add stores the bare payload, the read path decodes a YAML entry
	vAssertR(err == nil, "appended-entry-can-be-listed", "C19-F1", true)
	if err == nil {
		vAssertR(len(entries) == 1 && entries[0].Token == tok && entries[0].Payload == "hello", "appended-entry-comes-back-unchanged", "C19-F1", true)
	}
}
