//verif:pkg pkg/sidecar/param
//verif:assume reference decoder written from the documented format and the shipped shell decoder (hack/fuse-demo/wrap_datamon.sh, deserialize_dict): the first two characters are the item and key/value separators; the rest is split on the item separator (empty items dropped); an item holding the key/value separator is name / value (second field), an item without it is a flag set to true
//verif:assume package reflect is modelled for the value-walking subset the encoder uses (ValueOf, Kind, NumField, Field, Type().Field(i).PkgPath, Interface, Len, Index)
//verif:assume parameter values: printable ASCII bytes (0x20..0x7e), every byte symbolic; FUSE: coordination point 1 symbolic byte, context name 1 symbolic byte, bundle source path 0..1 symbolic bytes (thorough 0..2), destination label empty or a fixed letter (thorough: also the source repo empty or a fixed letter), the other bundle fields empty, sleep flag both ways; PG: coordination point 1 symbolic byte, ports {1, 5432, 65535}, source label 0..1 symbolic byte, source repo and source bundle empty or a fixed letter (thorough: also the destination message 0..1 symbolic byte)
//verif:cover VerifC21FUSE encoded bundle-with-name-only separator-moved-off-default
//verif:cover VerifC21PG encoded source-without-repo
package param

func vPrintable(tag string, n int) string {
	s := vString(tag, n)
	for i := 0; i < n; i++ {
		vAssume(vAnd(s[i] >= 0x20, s[i] <= 0x7e))
	}
	return s
}

// vDecode is the reference decoder. ok is false when the string cannot be decoded at all.
func vDecode(s string) (out map[string]string, flags map[string]bool, ok bool) {
	if len(s) < 2 {
		return nil, nil, false
	}
	is, kv := s[0], s[1]
	if is == '.' || kv == '.' {
		return nil, nil, false
	}
	out, flags = map[string]string{}, map[string]bool{}
	body := s[2:]
	start := 0
	emit := func(item string) {
		if len(item) == 0 {
			return
		}
		cut := -1
		for i := 0; i < len(item); i++ {
			if item[i] == kv {
				cut = i
				break
			}
		}
		if cut < 0 {
			flags[item] = true
			return
		}
		rest := item[cut+1:]
		end := len(rest)
		for i := 0; i < len(rest); i++ {
			if rest[i] == kv {
				end = i
				break
			}
		}
		out[item[:cut]] = rest[:end]
	}
	for i := 0; i <= len(body); i++ {
		if i == len(body) || body[i] == is {
			emit(body[start:i])
			start = i + 1
		}
	}
	return out, flags, true
}

func vSameParams(got map[string]string, want map[string]string) bool {
	if len(got) != len(want) {
		return false
	}
	r := true
	for k, v := range want {
		g, ok := got[k]
		if !ok {
			return false
		}
		r = vAnd(r, vStrEqual(g, v))
	}
	return r
}

// VerifC21FUSE: the FUSE sidecar environment variables decode back to exactly the non-empty parameters and the sleep flag.
func VerifC21FUSE() {
	vBudget(100000000)
	vUnwind(100000)
	coord := vPrintable("coord", 1)
	maxPath := 2 // 0..1 symbolic bytes (thorough: 0..2)
	if vThorough() {
		maxPath = 3
	}
	srcPath := vPrintable("srcPath", vChoose("srcPathLen", maxPath))
	srcRepo, destLabel := "", ""
	if vChoose("destLabelSet", 2) == 1 {
		destLabel = "L"
	}
	if vThorough() && vChoose("srcRepoSet", 2) == 1 {
		srcRepo = "R"
	}
	sleep := vChoose("sleep", 2) == 1
	var p FUSEParams
	p.Globals.SleepInsteadOfExit = sleep
	p.Globals.CoordPoint = coord
	p.Globals.ConfigBucketName = "k"
	ctxName := vPrintable("contextName", 1)
	p.Globals.ContextName = ctxName
	p.Bundles = []fuseParamsBundleParams{{Name: "b1", SrcPath: srcPath, SrcRepo: srcRepo, DestLabel: destLabel}}
	if len(srcPath)+len(srcRepo)+len(destLabel) == 0 {
		vCover("bundle-with-name-only")
	}
	env, err := FUSEParamsToEnvVars(p)
	// values this short leave plenty of separator candidates: encoding has no reason to fail
	vAssert(err == nil, "short-values-always-encode")
	if err != nil {
		return
	}
	vCover("encoded")
	g, ok := env[fuseGlobalsEnvVar]
	vAssert(ok, "globals-variable-present")
	if len(g) > 0 && g[0] != '0' {
		vCover("separator-moved-off-default")
	}
	got, flags, dok := vDecode(g)
	vAssert(dok, "globals-decodable")
	vAssert(vSameParams(got, map[string]string{"c": coord, "b": "k", "a": ctxName}), "globals-decode-to-the-given-parameters")
	vAssert(flags["S"] == sleep && len(flags) == vB(sleep), "sleep-flag-round-trips")
	b, ok := env[bundleEnvVarPrefix+"b1"]
	vAssert(ok && len(env) == 2, "one-variable-per-bundle")
	want := map[string]string{}
	if len(srcPath) > 0 {
		want["sp"] = srcPath
	}
	if len(srcRepo) > 0 {
		want["sr"] = srcRepo
	}
	if len(destLabel) > 0 {
		want["dl"] = destLabel
	}
	got, flags, dok = vDecode(b)
	vAssert(dok, "bundle-decodable")
	vAssert(vSameParams(got, want), "bundle-decodes-to-exactly-the-non-empty-parameters")
	vAssert(len(flags) == 0, "no-spurious-flag")
}

func vB(b bool) int {
	if b {
		return 1
	}
	return 0
}

func vItoa(n int) string {
	if n == 0 {
		return "0"
	}
	var d []byte
	for n > 0 {
		d = append([]byte{byte('0' + n%10)}, d...)
		n /= 10
	}
	return string(d)
}

// VerifC21PG: the database sidecar environment variables decode back to exactly the given parameters.
func VerifC21PG() {
	vBudget(100000000)
	vUnwind(100000)
	coord := vPrintable("coord", 1)
	srcRepo := ""
	if vChoose("srcRepoSet", 2) == 1 {
		srcRepo = "R"
	}
	srcLabel := vPrintable("srcLabel", vChoose("srcLabelLen", 2))
	srcBundle, destMsg := "", ""
	if vChoose("srcBundleSet", 2) == 1 {
		srcBundle = "B"
	}
	if vThorough() {
		destMsg = vPrintable("destMsg", vChoose("destMsgLen", 2))
	}
	port := []int{1, 5432, 65535}[vChoose("port", 3)]
	sleep := vChoose("sleep", 2) == 1
	ignoreVersion := vChoose("ignoreVersion", 2) == 1
	var p PGParams
	p.Globals.SleepInsteadOfExit = sleep
	p.Globals.IgnorePGVersionMismatch = ignoreVersion
	p.Globals.CoordPoint = coord
	p.Databases = []pgParamsDBParams{{Name: "d1", Port: port, DestMessage: destMsg, SrcRepo: srcRepo, SrcLabel: srcLabel, SrcBundle: srcBundle}}
	if len(srcRepo) == 0 && len(srcLabel)+len(srcBundle) > 0 {
		vCover("source-without-repo")
	}
	env, err := PGParamsToEnvVars(p)
	vAssert(err == nil, "short-values-always-encode")
	if err != nil {
		return
	}
	vCover("encoded")
	g, ok := env[pgGlobalsEnvVar]
	vAssert(ok, "globals-variable-present")
	got, flags, dok := vDecode(g)
	vAssert(dok, "globals-decodable")
	v := "false"
	if ignoreVersion {
		v = "true"
	}
	vAssert(vSameParams(got, map[string]string{"c": coord, "V": v}), "globals-decode-to-the-given-parameters")
	vAssert(flags["S"] == sleep && len(flags) == vB(sleep), "sleep-flag-round-trips")
	d, ok := env[dbEnvVarPrefix+"d1"]
	vAssert(ok && len(env) == 2, "one-variable-per-database")
	want := map[string]string{"p": vItoa(port)}
	if len(destMsg) > 0 {
		want["m"] = destMsg
	}
	if len(srcRepo) > 0 {
		want["sr"] = srcRepo
	}
	if len(srcLabel) > 0 {
		want["sl"] = srcLabel
	}
	if len(srcBundle) > 0 {
		want["sb"] = srcBundle
	}
	got, flags, dok = vDecode(d)
	vAssert(dok, "database-decodable")
	vAssert(vSameParams(got, want), "database-decodes-to-exactly-the-non-empty-parameters")
	vAssert(len(flags) == 0, "no-spurious-flag")
}
