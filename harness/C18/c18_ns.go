//verif:pkg pkg/fuse
//verif:use store,aferostub,fusehelp
//verif:assume the mutable file system is driven through its fuseutil.FileSystem methods the way the kernel drives them: rmdir only on directories, unlink only on non-directories, rename only between entries of compatible kinds and never of a directory into itself (the kernel's VFS refuses the other cases before they reach the file system); one ForgetInode for every inode whose last name was removed (lookup count 1: no extra lookups are issued while the program runs)
//verif:assume programs of 3 (thorough: 4) operations - from the empty tree, or 2 (thorough: 3) after a fixed three-operation prelude (mkdir d, create d/x, write d/x; or create x, unlink x, mkdir d) - chosen by the solver from {mkdir, create, write (append two bytes, or overwrite the first byte), truncate (to nothing, or two bytes longer), unlink, rmdir, rename} over the parents {root, directory d} and the names {d, x}; the staging area is an in-memory afero.Fs model; commit runs the real Commit() (real cafs, BLAKE2b as UF) and the committed bundle is read back with DownloadMetadata
//verif:assume commit under a fault: two files (x at the root, d/x) written, then Commit() with one transient fault at a solver-chosen mutating store call (blob or metadata store)
//verif:cover VerifC18CommitFault commit-failed
//verif:assume staging write fault: the staging file system accepts only the first k (0..4) bytes of a five-byte write
//verif:cover VerifC18WriteFault short-write
//verif:assume staging read fault: reading a staged five-byte file back fails after k (0..4) bytes while Commit() uploads it
//verif:cover VerifC18CommitReadFault commit-failed
//verif:cover VerifC18Programs eexist enoent enotempty renamed replaced-by-rename committed-nested-file in-place-overwrite extending-truncate prelude-nested-file prelude-inode-reuse
package fuse

import (
	"context"
	"sort"
	"strings"

	jfuse "github.com/jacobsa/fuse"
	"github.com/jacobsa/fuse/fuseops"
	"github.com/oneconcern/datamon/pkg/core"
	"github.com/oneconcern/datamon/pkg/model"
	"go.uber.org/zap"

	context2 "github.com/oneconcern/datamon/pkg/context"
)

type vRefNode struct {
	dir  bool
	ino  fuseops.InodeID
	data string
}

func vNewMutable() (*fsMutable, context2.Stores) {
	meta, blob := newVStore("meta"), newVStore("blob")
	stores := context2.New()
	stores.SetMetadata(meta)
	stores.SetVMetadata(meta)
	stores.SetBlob(blob)
	vAssert(core.CreateRepo(model.RepoDescriptor{Name: "r", Description: "d", Contributor: model.Contributor{Name: "n", Email: "e@x.io"}}, stores) == nil, "create-repo")
	b := core.NewBundle(core.Repo("r"), core.ContextStores(stores), core.Logger(zap.NewNop()),
		core.BundleDescriptor(model.NewBundleDescriptor(model.Message("m"), model.BundleContributor(model.Contributor{Name: "n", Email: "e@x.io"}))))
	b.BundleDescriptor.LeafSize = 64
	fs := defaultMutableFS(b, "/staging")
	fs.l = zap.NewNop()
	fs.localCache = newVFs()
	vAssert(fs.initRoot() == nil, "init-root")
	return fs, stores
}

func vErrno(err error) string {
	switch err {
	case nil:
		return "ok"
	case jfuse.ENOENT:
		return "ENOENT"
	case jfuse.EEXIST:
		return "EEXIST"
	case jfuse.ENOTEMPTY:
		return "ENOTEMPTY"
	case jfuse.ENOTDIR:
		return "ENOTDIR"
	}
	return "other:" + err.Error()
}

func VerifC18Programs() {
	vBudget(400000000)
	vUnwind(200000)
	fs, stores := vNewMutable()
	ctx := context.Background()
	ref := map[string]*vRefNode{} // path -> node ("d", "x", "d/d", "d/x")
	join := func(p, n string) string {
		if p == "" {
			return n
		}
		return p + "/" + n
	}
	hasChildren := func(p string) bool {
		for k := range ref {
			if strings.HasPrefix(k, p+"/") {
				return true
			}
		}
		return false
	}
	parentIno := func(p string) fuseops.InodeID {
		if p == "" {
			return fuseops.RootInodeID
		}
		return ref[p].ino
	}
	forget := func(n *vRefNode) {
		vAssert(fs.ForgetInode(ctx, &fuseops.ForgetInodeOp{Inode: n.ino, N: 1}) == nil, "forget")
	}
	var script []int // scripted choices of the prelude, consumed before the solver chooses
	choose := func(tag string, k int) int {
		if len(script) > 0 {
			v := script[0]
			script = script[1:]
			return v
		}
		return vChoose(tag, k)
	}
	pickParent := func(tag string) string {
		if d, ok := ref["d"]; ok && d.dir && choose(tag, 2) == 1 {
			return "d"
		}
		return ""
	}
	names := []string{"d", "x"}
	nOps := 3
	if vThorough() {
		nOps = 4
	}
	// an optional concrete prelude (run through the same code as the solver-chosen steps) puts the mount into a
	// state that short programs do not reach from the empty tree: a file with content inside a directory, or an
	// inode number that was freed and handed out again
	switch vChoose("prelude", 3) {
	case 1:
		script = []int{0, 0 /* mkdir d */, 1, 1, 1 /* create d/x */, 1, 1, 2 /* write d/x */}
		nOps += 2
		vCover("prelude-nested-file")
	case 2:
		script = []int{1, 1 /* create x */, 1, 3 /* unlink x */, 0, 0 /* mkdir d */}
		nOps += 2
		vCover("prelude-inode-reuse")
	}
	for step := 0; step < nOps; step++ {
		p := pickParent("parent")
		n := names[choose("name", 2)]
		path := join(p, n)
		cur := ref[path]
		switch choose("op", 7) {
		case 0: // mkdir
			op := &fuseops.MkDirOp{Parent: parentIno(p), Name: n}
			err := fs.MkDir(ctx, op)
			if cur != nil {
				vCover("eexist")
				vAssert(vErrno(err) == "EEXIST", "mkdir-of-an-existing-name-is-EEXIST")
			} else {
				vAssert(err == nil, "mkdir-succeeds")
				vAssert(op.Entry.Attributes.Mode.IsDir(), "mkdir-yields-a-directory")
				ref[path] = &vRefNode{dir: true, ino: op.Entry.Child}
			}
		case 1: // create
			op := &fuseops.CreateFileOp{Parent: parentIno(p), Name: n}
			err := fs.CreateFile(ctx, op)
			if cur != nil {
				vCover("eexist")
				vAssert(vErrno(err) == "EEXIST", "create-of-an-existing-name-is-EEXIST")
			} else {
				vAssert(err == nil, "create-succeeds")
				vAssert(!op.Entry.Attributes.Mode.IsDir(), "create-yields-a-file")
				ref[path] = &vRefNode{ino: op.Entry.Child}
			}
		case 2: // write one byte at the end of a file
			if cur == nil || cur.dir {
				vAssume(false)
			}
			off := len(cur.data) // append, or overwrite the first byte of a non-empty file
			if len(cur.data) > 0 && choose("overwriteFirstByte", 2) == 1 {
				off = 0
				vCover("in-place-overwrite")
			}
			data := []byte{byte('a' + step), byte('A' + step)} // appends write two bytes, overwrites one
			if off == 0 && len(cur.data) > 0 {
				data = data[:1]
			}
			op := &fuseops.WriteFileOp{Inode: cur.ino, Offset: int64(off), Data: data}
			vAssert(fs.WriteFile(ctx, op) == nil, "write-succeeds")
			if off == 0 && len(cur.data) > 0 {
				cur.data = string(data) + cur.data[1:]
			} else {
				cur.data += string(data)
			}
			ga := &fuseops.GetInodeAttributesOp{Inode: cur.ino}
			vAssert(fs.GetInodeAttributes(ctx, ga) == nil && ga.Attributes.Size == uint64(len(cur.data)), "size-follows-writes")
		case 6: // truncate (shrink to nothing, or extend by two zero bytes)
			if cur == nil || cur.dir {
				vAssume(false)
			}
			size := uint64(0)
			if choose("extend", 2) == 1 {
				size = uint64(len(cur.data) + 2)
				vCover("extending-truncate")
			}
			op := &fuseops.SetInodeAttributesOp{Inode: cur.ino, Size: &size}
			vAssert(fs.SetInodeAttributes(ctx, op) == nil, "truncate-succeeds")
			if size == 0 {
				cur.data = ""
			} else {
				cur.data += "\x00\x00"
			}
			vAssert(op.Attributes.Size == size, "truncate-reports-the-new-size")
		case 3: // unlink (the kernel only sends it for non-directories)
			if cur != nil && cur.dir {
				vAssume(false)
			}
			err := fs.Unlink(ctx, &fuseops.UnlinkOp{Parent: parentIno(p), Name: n})
			if cur == nil {
				vCover("enoent")
				vAssert(vErrno(err) == "ENOENT", "unlink-of-a-missing-name-is-ENOENT")
			} else {
				vAssert(err == nil, "unlink-succeeds")
				delete(ref, path)
				forget(cur)
			}
		case 4: // rmdir (the kernel only sends it for directories)
			if cur != nil && !cur.dir {
				vAssume(false)
			}
			err := fs.RmDir(ctx, &fuseops.RmDirOp{Parent: parentIno(p), Name: n})
			switch {
			case cur == nil:
				vAssert(vErrno(err) == "ENOENT", "rmdir-of-a-missing-name-is-ENOENT")
			case hasChildren(path):
				vCover("enotempty")
				vAssert(vErrno(err) == "ENOTEMPTY", "rmdir-of-a-non-empty-directory-is-ENOTEMPTY")
			default:
				vAssert(err == nil, "rmdir-succeeds")
				delete(ref, path)
				forget(cur)
			}
		default: // rename path -> p2/n2
			p2 := pickParent("newParent")
			n2 := names[choose("newName", 2)]
			dst := join(p2, n2)
			if dst == path {
				vAssume(false) // the kernel returns early for a rename onto itself
			}
			target := ref[dst]
			if cur != nil {
				if cur.dir && strings.HasPrefix(dst+"/", path+"/") {
					vAssume(false) // a directory into itself: refused by the kernel
				}
				if p2 != "" && ref[p2] == cur {
					vAssume(false)
				}
				if target != nil && target.dir != cur.dir {
					vAssume(false) // kinds differ: refused by the kernel (EISDIR / ENOTDIR)
				}
			}
			err := fs.Rename(ctx, &fuseops.RenameOp{OldParent: parentIno(p), OldName: n, NewParent: parentIno(p2), NewName: n2})
			switch {
			case cur == nil:
				vAssert(vErrno(err) == "ENOENT", "rename-of-a-missing-name-is-ENOENT")
			case target != nil && target.dir && hasChildren(dst):
				vCover("enotempty")
				vAssert(vErrno(err) == "ENOTEMPTY", "rename-onto-a-non-empty-directory-is-ENOTEMPTY")
			default:
				vAssert(err == nil, "rename-succeeds")
				vCover("renamed")
				if target != nil {
					vCover("replaced-by-rename")
					delete(ref, dst)
					forget(target)
				}
				// move the node and everything below it
				moved := map[string]*vRefNode{}
				for k, v := range ref {
					if k == path || strings.HasPrefix(k, path+"/") {
						moved[dst+k[len(path):]] = v
						delete(ref, k)
					}
				}
				for k, v := range moved {
					ref[k] = v
				}
			}
		}
	}
	// ---- the visible tree agrees with the reference ----
	dInfo := ref["d"]
	check := func(parent fuseops.InodeID, pp string) {
		for _, n := range names {
			op := &fuseops.LookUpInodeOp{Parent: parent, Name: n}
			err := fs.LookUpInode(ctx, op)
			want := ref[join(pp, n)]
			if want == nil {
				vAssert(vErrno(err) == "ENOENT", "removed-or-never-created-names-do-not-resolve")
			} else {
				vAssert(err == nil, "live-names-resolve")
				if err == nil {
					vAssert(op.Entry.Child == want.ino && op.Entry.Attributes.Mode.IsDir() == want.dir, "lookup-returns-the-entry-that-was-created-there")
					if !want.dir {
						vAssert(op.Entry.Attributes.Size == uint64(len(want.data)), "file-size-is-what-was-written")
					}
				}
			}
		}
		var wantNames []string
		for k := range ref {
			parentOf, base := "", k
			if i := strings.LastIndex(k, "/"); i >= 0 {
				parentOf, base = k[:i], k[i+1:]
			}
			if parentOf == pp {
				wantNames = append(wantNames, base)
			}
		}
		sort.Strings(wantNames)
		rd := &fuseops.ReadDirOp{Inode: parent, Dst: make([]byte, 4096)}
		vAssert(fs.ReadDir(ctx, rd) == nil, "readdir")
		var got []string
		for _, r := range vParseDirents(rd.Dst[:rd.BytesRead]) {
			got = append(got, r.name)
		}
		sort.Strings(got)
		vAssert(strings.Join(got, ",") == strings.Join(wantNames, ","), "listing-shows-exactly-the-live-children")
	}
	check(fuseops.RootInodeID, "")
	if dInfo != nil && dInfo.dir {
		check(dInfo.ino, "d")
	}
	seen := map[fuseops.InodeID]bool{fuseops.RootInodeID: true}
	for _, v := range ref {
		vAssert(!seen[v.ino], "no-two-live-entries-share-an-inode")
		seen[v.ino] = true
	}
	// ---- commit: the bundle's files are the visible tree's files ----
	vAssert(fs.Commit() == nil, "commit-succeeds")
	rb := core.NewBundle(core.Repo("r"), core.ContextStores(stores), core.BundleID(fs.bundle.BundleID), core.Logger(zap.NewNop()))
	vAssert(core.DownloadMetadata(ctx, rb) == nil, "committed-bundle-readable")
	wantFiles := map[string]int{}
	for k, v := range ref {
		if !v.dir {
			wantFiles[k] = len(v.data)
			if strings.Contains(k, "/") {
				vCover("committed-nested-file")
			}
		}
	}
	vAssert(len(rb.BundleEntries) == len(wantFiles), "bundle-holds-exactly-the-visible-files")
	for _, e := range rb.BundleEntries {
		name := strings.TrimPrefix(e.NameWithPath, "/")
		sz, ok := wantFiles[name]
		vAssert(ok, "bundle-entry-is-a-visible-file")
		vAssert(!ok || e.Size == uint64(sz), "bundle-entry-has-the-files-size")
	}
}

// VerifC18CommitFault: committing a mutable mount while one store write fails: the commit reports the failure, or
// the bundle it published holds every visible file; a bundle descriptor never appears without all of its file lists.
func VerifC18CommitFault() {
	vBudget(400000000)
	vUnwind(200000)
	fs, stores := vNewMutable()
	ctx := context.Background()
	mk := &fuseops.MkDirOp{Parent: fuseops.RootInodeID, Name: "d"}
	vAssert(fs.MkDir(ctx, mk) == nil, "mkdir")
	for _, parent := range []fuseops.InodeID{fuseops.RootInodeID, mk.Entry.Child} {
		cf := &fuseops.CreateFileOp{Parent: parent, Name: "x"}
		vAssert(fs.CreateFile(ctx, cf) == nil, "create")
		vAssert(fs.WriteFile(ctx, &fuseops.WriteFileOp{Inode: cf.Entry.Child, Offset: 0, Data: []byte("hello")}) == nil, "write")
	}
	meta, _ := stores.Metadata().(*vStore)
	blob, _ := stores.Blob().(*vStore)
	vAssert(meta != nil && blob != nil, "stores")
	cr := &vCrasher{stores: []*vStore{meta, blob}, transient: true}
	cr.crashAt = vInt("faultAt", 1, 12)
	cr.install()
	err := fs.Commit()
	cr.revive()
	vAssume(cr.crashed)
	id := fs.bundle.BundleID
	_, hasDesc := meta.data[model.GetArchivePathToBundle("r", id)]
	if err != nil {
		vCover("commit-failed")
	} else {
		vAssert(hasDesc, "commit-that-reports-success-published-the-bundle")
	}
	if hasDesc {
		rb := core.NewBundle(core.Repo("r"), core.ContextStores(stores), core.BundleID(id), core.Logger(zap.NewNop()))
		vAssert(core.DownloadMetadata(ctx, rb) == nil, "published-bundle-readable")
		names := map[string]bool{}
		for _, e := range rb.BundleEntries {
			names[e.NameWithPath] = true
		}
		vAssert(len(names) == 2 && names["x"] && names["d/x"], "published-bundle-holds-every-visible-file")
	}
}

// VerifC18WriteFault: a write that the staging area cuts short is reported to the kernel as an error, and the file's
// size never claims bytes that were not stored.
func VerifC18WriteFault() {
	vBudget(100000000)
	fs, _ := vNewMutable()
	ctx := context.Background()
	cf := &fuseops.CreateFileOp{Parent: fuseops.RootInodeID, Name: "x"}
	vAssert(fs.CreateFile(ctx, cf) == nil, "create")
	staging, _ := fs.localCache.(*vFs)
	vAssert(staging != nil, "staging")
	room := vInt("accepted", 0, 4)
	staging.writeFault = func(name string, written int) int {
		if room-written < 0 {
			return 0
		}
		return room - written
	}
	vCover("short-write")
	err := fs.WriteFile(ctx, &fuseops.WriteFileOp{Inode: cf.Entry.Child, Offset: 0, Data: []byte("hello")})
	vAssert(err != nil, "write-cut-short-by-the-staging-area-is-reported")
	ga := &fuseops.GetInodeAttributesOp{Inode: cf.Entry.Child}
	vAssert(fs.GetInodeAttributes(ctx, ga) == nil, "getattr")
	vAssert(ga.Attributes.Size <= uint64(room), "size-never-claims-bytes-that-were-not-stored")
}

// VerifC18CommitReadFault: the staging area fails in the middle of a file while Commit() uploads it: the commit
// reports the failure; it never publishes a bundle holding a truncated file.
func VerifC18CommitReadFault() {
	vBudget(400000000)
	vUnwind(200000)
	fs, stores := vNewMutable()
	ctx := context.Background()
	cf := &fuseops.CreateFileOp{Parent: fuseops.RootInodeID, Name: "x"}
	vAssert(fs.CreateFile(ctx, cf) == nil, "create")
	vAssert(fs.WriteFile(ctx, &fuseops.WriteFileOp{Inode: cf.Entry.Child, Offset: 0, Data: []byte("hello")}) == nil, "write")
	staging, _ := fs.localCache.(*vFs)
	vAssert(staging != nil, "staging")
	cut := vInt("cutAfter", 0, 4)
	staging.readCut = map[string]int{}
	for name, node := range staging.nodes {
		if !node.dir && len(node.data) == 5 {
			staging.readCut[name] = cut
		}
	}
	vAssert(len(staging.readCut) == 1, "staged-file")
	err := fs.Commit()
	if err != nil {
		vCover("commit-failed")
		return
	}
	meta, _ := stores.Metadata().(*vStore)
	_, hasDesc := meta.data[model.GetArchivePathToBundle("r", fs.bundle.BundleID)]
	vAssert(!hasDesc, "no-bundle-with-a-truncated-file-is-published")
	vAssert(false, "commit-over-a-failing-staging-read-reports-failure")
}
