//verif:pkg pkg/fuse
//verif:assume inode allocator pre-states: highestInode in [first, first+6], free list of <= 3 distinct ids in (first, highest]; live set = (first, highest] minus free list (the representation invariant, re-asserted as post-condition so it is checked to be inductive)
//verif:cover VerifC18InodeStep alloc-from-free alloc-fresh free-highest free-middle
//verif:cover VerifC18InodeTwoAllocs free-list-emptied
package fuse

import "github.com/jacobsa/fuse/fuseops"

func vInodeState() (*iNodeGenerator, func(y fuseops.InodeID) bool) {
	h := fuseops.InodeID(vU64("h", uint64(firstINode), uint64(firstINode)+6))
	nf := vChoose("nfree", 4)
	free := make([]fuseops.InodeID, nf)
	for i := range free {
		free[i] = fuseops.InodeID(vU64("f", uint64(firstINode)+1, uint64(firstINode)+6))
		vAssume(free[i] <= h)
		for j := 0; j < i; j++ {
			vAssume(free[i] != free[j])
		}
	}
	g := &iNodeGenerator{highestInode: h, freeInodes: free}
	pre := append([]fuseops.InodeID{}, free...)
	live := func(y fuseops.InodeID) bool {
		l := vAnd(y > firstINode, y <= h)
		for _, f := range pre {
			l = vAnd(l, y != f)
		}
		return l
	}
	return g, live
}

func vInodeLive(g *iNodeGenerator, y fuseops.InodeID) bool {
	l := vAnd(y > firstINode, y <= g.highestInode)
	for _, f := range g.freeInodes {
		l = vAnd(l, y != f)
	}
	return l
}

func vInodeWellFormed(g *iNodeGenerator) bool {
	ok := g.highestInode >= firstINode
	for i, f := range g.freeInodes {
		ok = vAnd(ok, vAnd(f > firstINode, f <= g.highestInode))
		for j := 0; j < i; j++ {
			ok = vAnd(ok, f != g.freeInodes[j])
		}
	}
	return ok
}

// VerifC18InodeStep: one alloc or free from an arbitrary valid state.
func VerifC18InodeStep() {
	g, live := vInodeState()
	y := fuseops.InodeID(vU64("y", 0, uint64(firstINode)+10)) // arbitrary id for the pointwise comparison
	if vChoose("op", 2) == 0 {
		if len(g.freeInodes) > 0 {
			vCover("alloc-from-free")
		} else {
			vCover("alloc-fresh")
		}
		n := g.allocINode()
		vObserve("n", uint64(n))
		vAssert(n > firstINode, "alloc-above-root")
		vAssert(!live(n), "alloc-returns-id-not-in-use")
		vAssert(vInodeWellFormed(g), "alloc-keeps-state-well-formed")
		vAssert(vInodeLive(g, y) == vOr(live(y), y == n), "alloc-live-set-exact")
	} else {
		x := fuseops.InodeID(vU64("x", uint64(firstINode)+1, uint64(firstINode)+6))
		vAssume(live(x))
		if x == g.highestInode {
			vCover("free-highest")
		} else {
			vCover("free-middle")
		}
		g.freeINode(x)
		vAssert(vInodeWellFormed(g), "free-keeps-state-well-formed")
		vAssert(vInodeLive(g, y) == vAnd(live(y), y != x), "free-live-set-exact")
	}
}

// VerifC18InodeTwoAllocs: two allocations in a row never hand out the same id
// nor an id in use (independent of the invariant's formulation).
func VerifC18InodeTwoAllocs() {
	g, live := vInodeState()
	one := len(g.freeInodes) == 1
	a := g.allocINode()
	if one {
		vCover("free-list-emptied")
	}
	b := g.allocINode()
	vObserve("a", uint64(a))
	vObserve("b", uint64(b))
	vAssert(a != b, "two-allocs-distinct")
	vAssert(vAnd(!live(a), !live(b)), "two-allocs-not-in-use")
}
