//verif:pkg pkg/core
//verif:use store,corehelp,diamondhelp
//verif:assume crash model: fail-stop stores. The solver picks the mutating store call (over the metadata, label and blob stores together) at which the process dies and whether that call lands; from then on every store call of the dying run fails without effect; third variant: a transient fault - that one call fails without effect and everything else works. Afterwards the stores are revived and the real observers run. Object writes are atomic (object-store contract)
//verif:assume bundle ids are ksuids: later uploads get larger ids when they start in a later second (the library's contract; the model clock advances on every reading, the native replay waits for the next second)
//verif:assume history: repository r with one committed bundle (file a, or no file at all) carrying label v1, uploaded through the real code; the interrupted operation is the upload of a second bundle (files a - same content - and b; one entry per index file, or three so that the list goes out in the final partial flush; thorough: a third file); metadata stores plain or checksum-writing (PutCRC); optionally every metadata write sleeps so that the upload's coordinating goroutine is busy while the next file's blobs are written (one file worker in that variant)
//verif:assume label re-assignment: label v1 moved from one committed bundle to another, the write dying (landed or not) or failing transiently
//verif:cover VerifC06CommitCrash commit-interrupted
//verif:cover VerifC06LabelCrash label-write-lost label-write-landed
//verif:assume index packer unit: the real fileIndex.Upload (pack, uploadIndex, writeMetadata) with 2 entries per index file (the field is set by the harness; 1000 in production), 0..5 entries, and a transient fault at a solver-chosen index-file write
//verif:cover VerifC06PackFaults full-list-write-failed final-list-write-failed no-fault
//verif:cover VerifC06UploadCrash crashed-before-descriptor crashed-between-index-files completed descriptor-landed-then-crash transient-fault final-partial-list old-bundle-empty coordinator-busy-during-file-uploads
package core

import (
	"context"
	"time"

	"github.com/oneconcern/datamon/pkg/core/status"
	"github.com/oneconcern/datamon/pkg/model"
	"go.uber.org/zap"
	"gopkg.in/yaml.v2"
)

func VerifC06UploadCrash() {
	vBudget(300000000)
	vUnwind(200000)
	meta, vmeta, blob := newVStore("meta"), newVStore("vmeta"), newVStore("blob")
	stores := vCtxStoresKind(meta, vmeta, blob, vChoose("storeWithCRC", 2) == 1) // plain or checksummed metadata writes
	ctx := context.Background()
	vAssert(CreateRepo(model.RepoDescriptor{Name: "r", Description: "d", Contributor: model.Contributor{Name: "n", Email: "e@x.io"}}, stores) == nil, "create-repo")
	// entries per index file: 1 = every list is flushed when full, 3 = the two entries go out in the final, partial flush
	E := uint(1)
	if vChoose("entriesPerFile", 2) == 1 {
		E = 3
		vCover("final-partial-list")
	}
	workers := 2 // concurrent file uploads
	upload := func(files map[string][]byte, order []string) (*Bundle, error) {
		src := newVStore("src")
		for _, n := range order {
			src.putRaw(n, files[n])
		}
		b := NewBundle(Repo("r"), ContextStores(stores), ConsumableStore(src), Logger(zap.NewNop()),
			BundleDescriptor(model.NewBundleDescriptor(model.Message("m"), model.BundleContributor(model.Contributor{Name: "n", Email: "e@x.io"}))),
			ConcurrentFileUploads(workers))
		b.BundleDescriptor.LeafSize = 64
		err := implUpload(ctx, b, E, nil)
		return b, err
	}
	ca := []byte("content-a")
	cb := []byte("content-b")
	oldFiles, oldOrder := map[string][]byte{"a": ca}, []string{"a"}
	oldEmpty := vChoose("oldBundleEmpty", 2) == 1
	if oldEmpty {
		// the committed bundle holds no file: its descriptor is the only (and first) key of the repository's bundles
		oldFiles, oldOrder = map[string][]byte{}, nil
		vCover("old-bundle-empty")
	}
	old, err := upload(oldFiles, oldOrder)
	vAssert(err == nil, "first-upload")
	lab := NewLabel(LabelDescriptor(model.NewLabelDescriptor(model.LabelName("v1"), model.LabelContributor(model.Contributor{Name: "n", Email: "e@x.io"}))))
	vAssert(lab.UploadDescriptor(ctx, old) == nil, "label-set")
	beforeM, beforeV, beforeB := vSnapshot(meta), vSnapshot(vmeta), vSnapshot(blob)

	// the interrupted upload
	maxCalls := 9
	newFiles, newOrder := map[string][]byte{"a": ca, "b": cb}, []string{"a", "b"}
	if vThorough() {
		// a third file: more blob and index writes to die at
		newFiles, newOrder = map[string][]byte{"a": ca, "b": cb, "c": []byte("content-c")}, []string{"a", "b", "c"}
		maxCalls = 13
	}
	cr := &vCrasher{stores: []*vStore{meta, vmeta, blob}}
	cr.crashAt = vInt("crashAt", 0, maxCalls) // symbolic crash point: the store model decides at each mutating call whether it is the one
	if cr.crashAt > 0 {
		switch vChoose("how", 3) {
		case 1:
			cr.landed = true // dies right after the call landed
		case 2:
			cr.transient = true // a transient store fault: that one call fails, everything else works
			vCover("transient-fault")
		}
	}
	cr.install()
	meta.ops = nil
	if vChoose("slowMetadataWrites", 2) == 1 {
		// metadata writes take a while: the upload's coordinating goroutine is busy inside them while the file
		// workers go on (symbolically the sleep hands the processor to the other goroutines)
		vCover("coordinator-busy-during-file-uploads")
		meta.sched = func() { time.Sleep(150 * time.Millisecond) }
		meta.schedMutatingOnly = true
		workers = 1 // the next file starts only once the previous one is handed over: its blob writes fall into the busy period
	}
	vNextSecond()
	nb, uerr := upload(newFiles, newOrder)
	meta.sched = nil
	workers = 2
	cr.revive()
	if cr.crashAt > 0 && !cr.crashed {
		vAssume(false) // the upload makes fewer mutating calls than crashAt: same as no crash
	}
	newID := nb.BundleID
	if !cr.crashed {
		vCover("completed")
		vAssert(uerr == nil, "upload-without-crash-succeeds")
	} else {
		vAssert(uerr != nil || cr.landed, "upload-interrupted-before-its-last-write-reports-failure")
		if cr.transient {
			vAssert(uerr != nil, "upload-hit-by-a-store-fault-reports-failure")
		}
	}
	// immutability: every write under bundles/ is create-if-absent
	for _, o := range meta.ops {
		if (o.Op == "put" || o.Op == "put-exists" || o.Op == "put-failed") && len(o.Key) > 8 && o.Key[:8] == "bundles/" {
			vAssert(o.NoOverw, "bundle-metadata-written-create-if-absent")
		}
	}
	// what survived of the new bundle
	_, hasDesc := meta.data[model.GetArchivePathToBundle("r", newID)]
	_, hasI0 := meta.data[model.GetArchivePathToBundleFileList("r", newID, 0)]
	_, hasI1 := meta.data[model.GetArchivePathToBundleFileList("r", newID, 1)]
	if E == 3 {
		hasI1 = hasI0 // a single index file
	}
	if len(newOrder) == 3 && E == 1 {
		_, hasI2 := meta.data[model.GetArchivePathToBundleFileList("r", newID, 2)]
		hasI1 = hasI1 && hasI2
	}
	complete := hasDesc && hasI0 && hasI1
	if hasDesc {
		vAssert(hasI0 && hasI1, "descriptor-is-written-after-all-file-lists")
		if cr.crashed {
			vCover("descriptor-landed-then-crash")
		}
	} else if cr.crashed {
		vCover("crashed-before-descriptor")
		if hasI0 != hasI1 {
			vCover("crashed-between-index-files")
		}
	}
	// previously committed state is intact
	for k, v := range beforeM {
		nv, ok := meta.data[k]
		vAssert(ok && string(nv) == v, "committed-metadata-intact")
	}
	for k, v := range beforeV {
		nv, ok := vmeta.data[k]
		vAssert(ok && string(nv) == v, "labels-intact")
	}
	for k, v := range beforeB {
		nv, ok := blob.data[k]
		vAssert(ok && string(nv) == v, "committed-blobs-intact")
	}
	// observers
	bundles, lerr := ListBundles("r", stores)
	vAssert(lerr == nil, "listing-works-after-crash")
	seenOld, seenNew := false, false
	for _, b := range bundles {
		seenOld = seenOld || b.ID == old.BundleID
		seenNew = seenNew || b.ID == newID
	}
	vAssert(seenOld, "committed-bundle-still-listed")
	vAssert(seenNew == complete, "new-bundle-listed-iff-all-its-metadata-was-written")
	vAssert(len(bundles) == 1 || (len(bundles) == 2 && seenNew), "no-phantom-bundle-listed")
	latest, gerr := GetLatestBundle("r", stores)
	vAssert(gerr == nil, "latest-bundle-resolves-after-crash")
	if complete {
		vAssert(latest == newID, "latest-is-the-new-bundle-once-complete")
	} else {
		vAssert(latest == old.BundleID, "latest-never-names-a-partial-bundle")
	}
	// get / download of the new bundle id
	probe := NewBundle(Repo("r"), ContextStores(stores), BundleID(newID), Logger(zap.NewNop()))
	derr := implPublishMetadata(ctx, probe, false, E) // DownloadMetadata with the index-file size this harness uploads with
	if !complete {
		vAssert(derr != nil, "partial-bundle-cannot-be-fetched")
	} else {
		vAssert(derr == nil && len(probe.BundleEntries) == len(newOrder), "complete-bundle-fetches-with-all-entries")
	}
	_ = status.ErrNotFound
	// the committed bundle still downloads with its content; the label still resolves
	dst := newVStore("dst")
	down := NewBundle(Repo("r"), ContextStores(stores), ConsumableStore(dst), BundleID(old.BundleID), Logger(zap.NewNop()), ConcurrentFileDownloads(2), ConcurrentFilelistDownloads(2))
	vAssert(implPublish(ctx, down, E, nil) == nil, "committed-bundle-still-downloads")
	if !oldEmpty {
		vAssert(string(dst.data["a"]) == string(ca), "committed-bundle-content-intact")
	}
	l2 := NewLabel(LabelDescriptor(model.NewLabelDescriptor(model.LabelName("v1"))))
	vAssert(l2.DownloadDescriptor(ctx, NewBundle(Repo("r"), ContextStores(stores), Logger(zap.NewNop())), true) == nil && l2.Descriptor.BundleID == old.BundleID, "label-still-resolves")
	// a retried upload succeeds and becomes the latest
	if !complete {
		vNextSecond()
		rb, rerr := upload(newFiles, newOrder)
		vAssert(rerr == nil, "retried-upload-succeeds")
		lt, e := GetLatestBundle("r", stores)
		vAssert(e == nil && lt == rb.BundleID, "retried-bundle-becomes-latest")
	}
}

// VerifC06CommitCrash: the same crash / fault model applied to a diamond commit.
func VerifC06CommitCrash() {
	vBudget(600000000)
	vUnwind(300000)
	w := vNewDiamondWorld()
	stores := vCtxStoresAll(w.meta, w.vmeta, w.blob)
	ctx := context.Background()
	// a committed bundle and a label exist already
	src := newVStore("src")
	src.putRaw("a", []byte("old-a"))
	old := NewBundle(Repo("r"), ContextStores(stores), ConsumableStore(src), Logger(zap.NewNop()),
		BundleDescriptor(model.NewBundleDescriptor(model.Message("m"), model.BundleContributor(vContrib()))), ConcurrentFileUploads(2))
	old.BundleDescriptor.LeafSize = 64
	vAssert(implUpload(ctx, old, defaultBundleEntriesPerFile, nil) == nil, "first-upload")
	lab := NewLabel(LabelDescriptor(model.NewLabelDescriptor(model.LabelName("v1"), model.LabelContributor(vContrib()))))
	vAssert(lab.UploadDescriptor(ctx, old) == nil, "label-set")
	vNextSecond()
	vAssert(w.splitAdd("s1", vFilesV1, []string{"a", "c"}) == nil, "split")
	beforeM, beforeB := vSnapshot(w.meta), vSnapshot(w.blob)
	beforeLabel := string(w.vmeta.data[model.GetArchivePathToLabel("r", "v1")])

	cr := &vCrasher{stores: []*vStore{w.meta, w.vmeta, w.blob}}
	cr.crashAt = vInt("crashAt", 1, 4)
	switch vChoose("how", 3) {
	case 1:
		cr.landed = true
	case 2:
		cr.transient = true
	}
	cr.install()
	w.meta.ops, w.vmeta.ops = nil, nil
	vNextSecond()
	newID, cerr := w.commit(model.EnableConflicts)
	cr.revive()
	vAssume(cr.crashed)
	vCover("commit-interrupted")
	for _, st := range []*vStore{w.meta, w.vmeta} {
		for _, o := range st.ops {
			if (o.Op == "put" || o.Op == "put-exists" || o.Op == "put-failed") && ((len(o.Key) > 8 && o.Key[:8] == "bundles/") || (len(o.Key) > 9 && o.Key[:9] == "diamonds/")) {
				vAssert(o.NoOverw, "commit-metadata-written-create-if-absent")
			}
		}
	}
	_, hasDesc := w.meta.data[model.GetArchivePathToBundle("r", newID)]
	_, hasI0 := w.meta.data[model.GetArchivePathToBundleFileList("r", newID, 0)]
	complete := hasDesc && hasI0
	if hasDesc {
		vAssert(hasI0, "descriptor-is-written-after-all-file-lists")
	}
	if !complete {
		vAssert(cerr != nil, "interrupted-commit-reports-failure")
	}
	for k, v := range beforeM {
		nv, ok := w.meta.data[k]
		vAssert(ok && string(nv) == v, "committed-metadata-intact")
	}
	for k, v := range beforeB {
		nv, ok := w.blob.data[k]
		vAssert(ok && string(nv) == v, "committed-blobs-intact")
	}
	vAssert(string(w.vmeta.data[model.GetArchivePathToLabel("r", "v1")]) == beforeLabel, "labels-intact")
	bundles, lerr := ListBundles("r", stores)
	vAssert(lerr == nil, "listing-works-after-crash")
	seenOld, seenNew := false, false
	for _, b := range bundles {
		seenOld = seenOld || b.ID == old.BundleID
		seenNew = seenNew || b.ID == newID
	}
	vAssert(seenOld && seenNew == complete && len(bundles) <= 2, "new-bundle-listed-iff-all-its-metadata-was-written")
	latest, gerr := GetLatestBundle("r", stores)
	vAssert(gerr == nil, "latest-bundle-resolves-after-crash")
	if complete {
		vAssert(latest == newID, "latest-is-the-new-bundle-once-complete")
	} else {
		vAssert(latest == old.BundleID, "latest-never-names-a-partial-bundle")
	}
	probe := NewBundle(Repo("r"), ContextStores(stores), BundleID(newID), Logger(zap.NewNop()))
	derr := DownloadMetadata(ctx, probe)
	vAssert((derr == nil) == complete, "bundle-fetchable-iff-complete")
}

// VerifC06PackFaults: the index packer shared by bundle uploads, split uploads and diamond commits, with a store
// fault on one of its index-file writes: it reports failure whenever a write failed, and when it reports success
// the count it returns (recorded in the descriptor) is the number of index files stored, holding every entry in order.
func VerifC06PackFaults() {
	vBudget(100000000)
	meta := newVStore("meta")
	stores := vCtxStoresKind(meta, meta, newVStore("blob"), vChoose("storeWithCRC", 2) == 1)
	f := newFileIndex(stores, fileIndexMeta(stores.Metadata()),
		fileIndexPather(newUploadBundleIterator("r", model.BundleDescriptor{ID: vB1})), fileIndexLogger(zap.NewNop()))
	f.entriesPerFile = 2
	n := vChoose("entries", 6)
	faultAt := vInt("faultAt", 0, 3) // 0: none; k: the k-th index-file write fails
	puts := 0
	failedFull, failedFinal := false, false
	meta.fail = func(op, key string) error {
		if op == "put" {
			puts++
			if puts == faultAt {
				if puts*2 <= n {
					failedFull = true
				} else {
					failedFinal = true
				}
				return errVFault
			}
		}
		return nil
	}
	in := make(chan filePacked, 8)
	for i := 0; i < n; i++ {
		in <- filePacked{name: "f" + string(rune('0'+i)), hash: "h" + string(rune('0'+i)), size: uint64(i)}
	}
	close(in)
	count, err := f.Upload(in, make(chan errorHit), make(chan struct{}))
	meta.fail = nil
	switch {
	case failedFull:
		vCover("full-list-write-failed")
	case failedFinal:
		vCover("final-list-write-failed")
	default:
		vCover("no-fault")
		vAssert(err == nil, "pack-without-fault-succeeds")
	}
	if failedFull || failedFinal {
		vAssert(err != nil, "pack-hit-by-a-failed-index-write-reports-failure")
	}
	if err != nil {
		return
	}
	vAssert(int(count) == (n+1)/2, "count-is-the-number-of-index-files")
	k := 0
	for i := uint64(0); i < count; i++ {
		b, ok := meta.data[model.GetArchivePathToBundleFileList("r", vB1, i)]
		vAssert(ok, "every-counted-index-file-is-stored")
		var be model.BundleEntries
		vAssert(yaml.Unmarshal(b, &be) == nil, "index-file-decodes")
		for _, e := range be.BundleEntries {
			vAssert(e.NameWithPath == "f"+string(rune('0'+k)) && e.Hash == "h"+string(rune('0'+k)), "entries-in-order-none-lost")
			k++
		}
	}
	vAssert(k == n, "entries-in-order-none-lost")
}

// VerifC06LabelCrash: re-assigning a label dies at its store write (landed or not), or meets a transient fault:
// the label keeps resolving - to the old bundle or to the new one, never to something else - and a label set that
// reports success has taken effect; bundles are untouched.
func VerifC06LabelCrash() {
	vBudget(100000000)
	meta, vmeta := newVStore("meta"), newVStore("vmeta")
	stores := vCtxStoresKind(meta, vmeta, newVStore("blob"), vChoose("storeWithCRC", 2) == 1)
	ctx := context.Background()
	vPutRepo(meta, "r")
	vPutBundle(meta, "r", vB1, 1, true)
	vPutBundle(meta, "r", vB2, 1, true)
	set := func(bundle string) error {
		lab := NewLabel(LabelDescriptor(model.NewLabelDescriptor(model.LabelName("v1"), model.LabelContributor(model.Contributor{Name: "n", Email: "e@x.io"}))))
		return lab.UploadDescriptor(ctx, NewBundle(Repo("r"), ContextStores(stores), BundleID(bundle), Logger(zap.NewNop())))
	}
	vAssert(set(vB1) == nil, "label-set")
	beforeM := vSnapshot(meta)
	cr := &vCrasher{stores: []*vStore{meta, vmeta}}
	cr.crashAt = vInt("crashAt", 1, 2)
	switch vChoose("how", 3) {
	case 1:
		cr.landed = true
	case 2:
		cr.transient = true
	}
	cr.install()
	err := set(vB2)
	cr.revive()
	vAssume(cr.crashed)
	l2 := NewLabel(LabelDescriptor(model.NewLabelDescriptor(model.LabelName("v1"))))
	gerr := l2.DownloadDescriptor(ctx, NewBundle(Repo("r"), ContextStores(stores), Logger(zap.NewNop())), true)
	vAssert(gerr == nil, "label-still-resolves")
	vAssert(l2.Descriptor.BundleID == vB1 || l2.Descriptor.BundleID == vB2, "label-names-the-old-or-the-new-bundle")
	if l2.Descriptor.BundleID == vB1 {
		vCover("label-write-lost")
		vAssert(err != nil, "label-set-that-did-not-take-effect-reports-failure")
	} else {
		vCover("label-write-landed")
	}
	vAssertSame(beforeM, meta, []string{""}, "bundles-untouched-by-a-label-set")
	got, lerr := ListLabels("r", stores)
	vAssert(lerr == nil && len(got) == 1, "label-listed-once")
}
