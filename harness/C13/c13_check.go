//verif:pkg pkg/core
//verif:use store,kv
//verif:assume backoff.Retry modelled as: call the operation until it returns nil, at most 3 attempts, no sleeping (natively the real exponential backoff runs)
//verif:assume blob store and KV = in-memory models; GetAttr may fail transiently 0..2 times before succeeding
//verif:cover VerifC13CheckAndDelete deleted kept-recent attr-failed
package core

import (
	"context"
	"errors"
	"time"

	"github.com/oneconcern/datamon/pkg/storage"
	"go.uber.org/zap"
)

// VerifC13CheckAndDelete: one step of the delete-unused scan on one blob key,
// under transient attribute-read failures.
func VerifC13CheckAndDelete() {
	key := "k1"
	blob := newVStore("blob")
	blob.putRaw(key, []byte("data"))
	db := newVKV()
	indexed := vBool("indexed")
	if indexed {
		_ = db.Set([]byte(key), nil)
	}
	if vBool("kvError") {
		db.failExists = errors.New("kv failure")
	}
	idxSec := vI64("indexTime", 1000, 1010)
	updSec := vI64("updated", 1000, 1010)
	indexTime := time.Unix(idxSec, 0)
	upd := time.Unix(updSec, 0)
	blob.attrHook = func(k string, a *storage.Attributes) { a.Updated = upd }
	f := vChoose("attrFailures", 3) // the first f attribute reads fail (0..2: fewer than the 3 attempts of the retry model, so that the model and the real time-based policy agree)
	attempt := 0
	gotAttrs := false
	blob.fail = func(op, k string) error {
		if op == "getattr" {
			attempt++
			if attempt <= f {
				return errVFault
			}
			gotAttrs = true
		}
		return nil
	}
	dry := vBool("dryRun")
	var c1, c2, c3, c4 uint64
	err := checkAndDeleteKey(context.Background(), db, indexTime, key, blob, zap.NewNop(), dry, &c1, &c2, &c3, &c4)
	_, still := blob.data[key]
	deleted := !still
	vObserve("deleted", deleted)
	vObserve("err", err != nil)
	if deleted {
		vCover("deleted")
	}
	if f > 0 {
		vCover("attr-failed")
	}
	vAssert(vImplies(deleted, !indexed), "never-deletes-an-indexed-key")
	vAssert(vImplies(deleted, gotAttrs), "never-deletes-without-having-read-the-update-time")
	vAssert(vImplies(deleted, updSec <= idxSec), "never-deletes-a-blob-updated-after-the-index")
	vAssert(vImplies(deleted, !dry), "dry-run-deletes-nothing")
	if !deleted && updSec > idxSec {
		vCover("kept-recent")
	}
}
