//verif:pkg pkg/core
//verif:use store,kv,corehelp
//verif:cover VerifC13ChunkUploadFaults write-failed-midway
//verif:cover VerifC13RootSkip root-without-leaves
package core

import (
	"context"
	"time"

	"github.com/oneconcern/datamon/pkg/cafs"
	"github.com/oneconcern/datamon/pkg/model"
	"go.uber.org/zap"
	"gopkg.in/yaml.v2"

)

var vIdxKeys = []string{"aa", "b", "cccc"}

// VerifC13ChunkUploadFaults: an index chunk write that fails transiently after
// having consumed part of the key stream, then succeeds on retry. When the
// uploader reports success, every key marked as uploaded in the KV store must
// be present in some chunk object of the metadata store (otherwise the delete
// phase will treat a referenced blob as unreferenced).
func VerifC13ChunkUploadFaults() {
	vBudget(8000000)
	db := newVKV()
	n := vChoose("keys", 3) + 1 // 1..3 unmarked keys
	for i := 0; i < n; i++ {
		_ = db.Set([]byte(vIdxKeys[i]), []byte{})
	}
	meta := newVStore("meta")
	failures := vChoose("failures", 2) // 0 or 1 transient write failure
	consumed := vChoose("consumed", 45) // bytes of the stream consumed before the failure
	left := failures
	meta.putBreak = func(key string) int {
		if left > 0 {
			left--
			return consumed
		}
		return -1
	}
	opts := vPurgeOptions(uint64(vChoose("chunkSize", 2) + 2)) // 2..3
	done := make(chan struct{})
	close(done)
	var unique, uploaded uint64
	indexTime := time.Unix(1600000000, 0).UTC()
	err := uploader(context.Background(), meta, indexTime, &unique, &uploaded, db, zap.NewNop(), done, opts)()
	vObserve("err", err != nil)
	if err != nil {
		return // the command reports failure: nothing is claimed
	}
	if failures > 0 && consumed > 32 {
		vCover("write-failed-midway")
	}
	inChunks := map[string]bool{}
	for _, k := range meta.keys {
		for _, key := range vChunkKeys(meta.data[k]) {
			inChunks[key] = true
		}
	}
	for i := 0; i < n; i++ {
		k := vIdxKeys[i]
		v, _ := db.Get([]byte(k))
		marked := len(v) > 0
		vAssertR(!marked || inChunks[k], "marked-key-is-in-a-stored-chunk", "C13-F2", failures > 0)
	}
}

// VerifC13RootSkip: the index scan of a bundle when the KV store already holds
// the root key of a file but not its leaf keys (the state left by an index
// build interrupted between inserting a root and its leaves, then resumed).
// After the scan every leaf of every scanned entry must be in the KV store.
func VerifC13RootSkip() {
	vBudget(8000000)
	blob := newVStore("blob")
	meta := newVStore("meta")
	// one stored object of two leaves (leaf size 2)
	const L = 2
	content := []byte("abc")
	k1, _ := cafs.KeyFromBytes(content[0:2], L, 1, false)
	k2, _ := cafs.KeyFromBytes(content[2:3], L, 1, true)
	root, _ := cafs.RootHash([]cafs.Key{k1, k2}, L)
	var rb []byte
	rb = append(rb, k1[:]...)
	rb = append(rb, k2[:]...)
	rb = append(rb, root[:]...)
	blob.putRaw(k1.String(), content[0:2])
	blob.putRaw(k2.String(), content[2:3])
	blob.putRaw(root.String(), rb)
	db := newVKV()
	rootPresent := vBool("rootAlreadyIndexed")
	leavesPresent := vBool("leavesAlreadyIndexed")
	if rootPresent {
		_ = db.Set([]byte(root.String()), []byte("X"))
		if leavesPresent {
			_ = db.Set([]byte(k1.String()), []byte("X"))
			_ = db.Set([]byte(k2.String()), []byte("X"))
		} else {
			vCover("root-without-leaves")
		}
	}
	b := NewBundle(Repo("r"), BundleID("b1"), ContextStores(vCtxStores2(meta, blob)), Logger(zap.NewNop()))
	b.BundleDescriptor.BundleEntriesFileCount = 1
	fl, _ := yaml.Marshal(model.BundleEntries{BundleEntries: []model.BundleEntry{{Hash: root.String(), NameWithPath: "f", Size: 3}}})
	meta.putRaw(model.GetArchivePathToBundleFileList("r", "b1", 0), fl)
	keys, err := bundleKeys(context.Background(), b, L, db, zap.NewNop())
	vAssert(err == nil, "scan-succeeds")
	for _, key := range keys {
		_ = db.SetIfNotExists([]byte(key), []byte{})
	}
	for _, k := range []cafs.Key{root, k1, k2} {
		ok, _ := db.Exists([]byte(k.String()))
		vAssertR(ok, "every-key-of-a-scanned-entry-is-indexed", "C13-F3", vAnd(rootPresent, !leavesPresent))
	}
}
