//verif:pkg pkg/core
//verif:use store,kv,corehelp,purgehelp
//verif:stub openKV vOpenKV
//verif:native-timeout 120000
//verif:assume purge drivers end to end over in-memory stores (as C14's end-to-end harness: real PurgeBuildReverseIndex / PurgeDeleteUnused, openKV routed to the in-memory KV model symbolically, real pebble natively); faults: the solver picks one store call (any call on the metadata or blob store, reads and listings included) of the index build or of delete-unused that fails once (transient), or the mutating call at which the index build dies (fail-stop, landed or not) after which the build is resumed with --resume on a fresh local KV store
//verif:assume world as in C14: two committed bundles sharing a file, the blobs of a deleted bundle, one bundle uploaded after the index build; index chunk size 2 (so several chunks exist); one variant with 12 keys at one key per chunk and a crash after the tenth chunk; listings returning full pages or at most two keys per page; in the crash variants the late bundle's blobs are written before the resume and the bundle is committed after it (an interrupted upload retried as a whole, or one long upload whose metadata lands after the resumed build)
//verif:assume cut index transfer: after a fault-free index build (2 keys per chunk) the transfer of one stored index chunk is cut (before the first byte, after the first line, in the middle, before the last byte) while delete-unused - or a resumed build followed by delete-unused - loads it
//verif:cover VerifC13CutChunk delete-unused-failed resumed-build-failed
//verif:cover VerifC13PurgeFaults upload-between-crash-and-resume short-listing-pages resumed-after-ten-chunks fault-in-build fault-in-delete build-crashed-and-resumed reported-failure-retried late-upload-reuses-orphaned-blobs two-repositories extra-context upload-in-flight-across-the-resume blob-store-without-touch chunks-numbered-from-100
package core

import (
	"github.com/oneconcern/datamon/pkg/model"
	"go.uber.org/zap"
)

// VerifC13PurgeFaults: whatever single fault or crash hits the two purge steps, when the commands report success
// every committed bundle (before the index, or uploaded after it) still downloads with its content.
func VerifC13PurgeFaults() {
	vBudget(1500000000)
	vUnwind(600000)
	mode := vChoose("mode", 4) // 0: transient fault in the build, 1: transient fault in delete-unused, 2: build dies and is resumed, 3: as 2 with more than ten stored chunks
	extra := 0
	chunk := uint64(2)
	if mode == 3 {
		extra, chunk = 3, 1 // 12 keys, one per chunk
	}
	w := vNewPurgeWorldN(extra)
	stores := vCtxStoresAll(w.meta, w.meta, w.blob)
	if vChoose("shortPages", 2) == 1 {
		w.meta.maxPage = 2 // listings return at most two keys per page
		vCover("short-listing-pages")
	}
	cr := &vCrasher{stores: []*vStore{w.meta, w.blob}}
	maxCalls := 60
	if !vThorough() {
		maxCalls = 24
	}
	switch mode {
	case 0, 1:
		cr.allCalls = true
		cr.transient = true
		cr.crashAt = vInt("faultAt", 1, maxCalls) // symbolic fault point
	case 2:
		cr.crashAt = vInt("crashAt", 1, 12)
		cr.landed = vChoose("landed", 2) == 1
	case 3:
		cr.crashAt = vInt("crashAt", 20, 24) // each chunk costs a Delete and a Put: dies with ten or more chunks stored
		cr.landed = true
		mode = 2
		vCover("resumed-after-ten-chunks")
	}
	chunkStart := 0
	if mode == 2 && vChoose("chunkIndexStart", 2) == 1 {
		chunkStart = 100 // chunk files numbered from 101 on (the documented way to merge indexes by hand): more chunks than keys
		vCover("chunks-numbered-from-100")
	}
	build := func(dir string, resume bool) error {
		_, err := PurgeBuildReverseIndex(stores, append([]PurgeOption{WithPurgeLogger(zap.NewNop()), WithPurgeLocalStore(vKVDir(dir)),
			WithPurgeIndexChunkSize(chunk), WithPurgeParallel(1), WithPurgeResumeIndex(resume), WithPurgeIndexChunkStart(chunkStart)}, w.extraOpts()...)...)
		return err
	}
	lateContent := "uploaded-after-the-index"
	if vChoose("lateReusesOrphan", 2) == 1 {
		// the late upload stores content whose blobs already exist, orphaned by the deleted bundle (older than the index)
		lateContent = "orphaned-content"
		vCover("late-upload-reuses-orphaned-blobs")
		if mode == 1 && vChoose("blobStoreWithoutTouch", 2) == 1 {
			w.blob.noTouch = true // a backend that cannot refresh modification times (S3): duplicates are written again
			vCover("blob-store-without-touch")
		}
	}
	vNextSecond()
	if mode == 0 || mode == 2 {
		cr.install()
	}
	var storedAtCrash []string // keys recorded in the chunks the interrupted build managed to store
	partial := false           // the interrupted build left a root key in the stored chunks without all its leaves
	err := build("kv-build", false)
	if mode == 0 || mode == 2 {
		cr.revive()
		vAssume(cr.crashed)
	}
	switch mode {
	case 0:
		vCover("fault-in-build")
		if err != nil {
			// the command reported failure: the operator resumes it
			vCover("reported-failure-retried")
			vAssert(build("kv-build-2", true) == nil, "resumed-build-succeeds")
		}
	case 2:
		vCover("build-crashed-and-resumed")
		partial = w.partialRootIndexed()
		storedAtCrash = w.indexed()
		// an upload that started after the index build and was interrupted after its blob writes; it is retried below
		// (only when the interrupted job has recorded its start time in a stored chunk: otherwise the resumed job
		// is a fresh start and an upload begun before it is not covered by the statement)
		chunkStored := vKeysUnder(w.meta, model.ReverseIndexPrefix()) > 0
		if chunkStored {
			vCover("upload-between-crash-and-resume")
			vNextSecond()
			if vChoose("uploadInFlight", 2) == 1 {
				// one long upload: its blobs land now, its bundle metadata only after the resumed build
				vCover("upload-in-flight-across-the-resume")
				w.uploadPending(map[string]string{"late": lateContent}, []string{"late"})
			} else {
				w.uploadBlobsOnly(lateContent) // an interrupted upload, retried as a whole below
			}
		}
		vNextSecond()
		vAssert(build("kv-build-2", true) == nil, "resumed-build-succeeds")
	default:
		vAssert(err == nil, "index-build-succeeds")
	}
	// resuming never loses a key that a stored chunk already recorded
	if len(storedAtCrash) > 0 {
		now := map[string]bool{}
		for _, k := range w.indexed() {
			now[k] = true
		}
		for _, k := range storedAtCrash {
			vAssert(now[k], "resume-keeps-every-key-already-recorded-in-a-stored-chunk")
		}
	}
	// a bundle uploaded after the index build started
	vNextSecond()
	if w.pending != nil {
		w.commitPending()
	} else {
		w.upload(map[string]string{"late": lateContent}, []string{"late"})
	}
	vNextSecond()
	if mode == 1 {
		cr.install()
	}
	_, derr := PurgeDeleteUnused(stores, append([]PurgeOption{WithPurgeLogger(zap.NewNop()), WithPurgeLocalStore(vKVDir("kv-delete")), WithPurgeParallel(1)}, w.extraOpts()...)...)
	if mode == 1 {
		cr.revive()
		vAssume(cr.crashed)
		vCover("fault-in-delete")
	} else {
		vAssert(derr == nil, "delete-unused-succeeds")
	}
	// whether or not delete-unused reported success, nothing a committed bundle needs may be gone
	for k := range w.referenced {
		_, ok := w.blob.data[k]
		vAssertR(ok, "no-blob-of-a-committed-bundle-is-deleted", "C13-F3", partial)
	}
	if !partial {
		w.downloadable("bundles-still-download-after-purge")
	}
}

// VerifC13CutChunk: an index chunk that arrives truncated is never taken for the whole index: delete-unused (or the
// resumed build that loads it) fails, or no blob a committed bundle needs is deleted.
func VerifC13CutChunk() {
	vBudget(900000000)
	vUnwind(600000)
	w := vNewPurgeWorldN(0)
	stores := vCtxStoresAll(w.meta, w.meta, w.blob)
	vNextSecond()
	_, err := PurgeBuildReverseIndex(stores, append([]PurgeOption{WithPurgeLogger(zap.NewNop()), WithPurgeLocalStore(vKVDir("kv-build")),
		WithPurgeIndexChunkSize(2), WithPurgeParallel(1)}, w.extraOpts()...)...)
	vAssert(err == nil, "index-build-succeeds")
	var chunks []string
	for _, k := range w.meta.keys {
		if len(k) >= len(model.ReverseIndexPrefix()) && k[:len(model.ReverseIndexPrefix())] == model.ReverseIndexPrefix() {
			chunks = append(chunks, k)
		}
	}
	vAssert(len(chunks) >= 2, "several-chunks")
	victim := chunks[vChoose("chunk", len(chunks))]
	n := len(w.meta.data[victim])
	cut := []int{0, 31, n / 2, n - 1}[vChoose("cutAt", 4)]
	vAssume(cut < n)
	w.meta.cutAfter = map[string]int{victim: cut}
	vNextSecond()
	if vChoose("resumeFirst", 2) == 1 {
		_, rerr := PurgeBuildReverseIndex(stores, append([]PurgeOption{WithPurgeLogger(zap.NewNop()), WithPurgeLocalStore(vKVDir("kv-build-2")),
			WithPurgeIndexChunkSize(2), WithPurgeParallel(1), WithPurgeResumeIndex(true)}, w.extraOpts()...)...)
		if rerr != nil {
			vCover("resumed-build-failed")
		}
		w.meta.cutAfter = nil
	}
	vNextSecond()
	_, derr := PurgeDeleteUnused(stores, append([]PurgeOption{WithPurgeLogger(zap.NewNop()), WithPurgeLocalStore(vKVDir("kv-delete")), WithPurgeParallel(1)}, w.extraOpts()...)...)
	w.meta.cutAfter = nil
	if derr != nil {
		vCover("delete-unused-failed")
	}
	for k := range w.referenced {
		_, ok := w.blob.data[k]
		vAssert(ok, "no-blob-of-a-committed-bundle-is-deleted")
	}
}
