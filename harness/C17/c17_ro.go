//verif:pkg pkg/fuse
//verif:use store,fusehelp
//verif:assume the file system is driven through its fuseutil.FileSystem methods (no kernel, no mount); fuseutil.WriteDirent is modelled by the Linux fuse_dirent layout (24-byte header, name, padding to 8; 0 when it does not fit); the FUSE server constructor is inert
//verif:assume bundles: a solver-chosen subset, in a solver-chosen order, of the paths {a, b, d/a, d/e/a, d/e/b, f/a} (at most 4 entries; thorough 5) with symbolic sizes; readdir resume: a directory of 1..4 children (names of different lengths), every buffer size from one record to all of them, every start offset
//verif:assume file reads: pre-downloaded mode reads through the consumable store stub, streamed mode through a content store stub; file content 5 bytes (symbolic), every offset 0..6 and length 0..6; the byte-level behaviour of the real content store is decided under C01
//verif:cover VerifC17Namespace nested implied-directories
//verif:cover VerifC17ReadDirResume resumed small-buffer
//verif:cover VerifC17ReadFile streamed pre-downloaded past-eof pre-downloaded-read-fails
//verif:assume streamed reads through the real content store: a fresh cafs instance (no key cache, as a mount has) at leaf size 64 over an in-memory object store holding a file of 0, 5 or 70 bytes (bytes 0, 4, 64 symbolic); offsets {0,3,62,64,69,70,100} x lengths {0,4,8,80}; optionally the fetch of a leaf fails with io.ErrUnexpectedEOF (a cut transfer)
//verif:cover VerifC17ReadStreamedReal empty-file two-leaves leaf-fetch-fails past-eof
package fuse

import (
	"context"
	"io"
	"strings"

	"github.com/jacobsa/fuse/fuseops"
	"github.com/oneconcern/datamon/pkg/cafs"
	"github.com/oneconcern/datamon/pkg/core"
	"github.com/oneconcern/datamon/pkg/model"
	"go.uber.org/zap"
)

func vHex(n int) string {
	var k cafs.Key
	for i := range k {
		k[i] = byte(n)
	}
	return k.String()
}

func vMountRO(entries []model.BundleEntry) *readOnlyFsInternal {
	b := core.NewBundle(core.Repo("r"), core.BundleID("B"), core.Logger(zap.NewNop()))
	b.BundleEntries = entries
	fs := defaultReadOnlyFS(b)
	fs.l = zap.NewNop()
	_, err := fs.populateFS(b)
	vAssert(err == nil, "populate")
	return fs
}

func vReadDirAll(fs *readOnlyFsInternal, ino fuseops.InodeID) []vDirRec {
	op := &fuseops.ReadDirOp{Inode: ino, Offset: 0, Dst: make([]byte, 4096)}
	vAssert(fs.ReadDir(context.Background(), op) == nil, "readdir")
	return vParseDirents(op.Dst[:op.BytesRead])
}

// VerifC17Namespace: lookups, attributes and listings agree with the bundle's entries and the directories they imply.
func VerifC17Namespace() {
	vBudget(100000000)
	vUnwind(100000)
	universe := []string{"a", "b", "d/a", "d/e/a", "d/e/b", "f/a"}
	maxN := 4
	if vThorough() {
		maxN = 5
	}
	// a solver-chosen subset in a solver-chosen order
	rest := append([]string{}, universe...)
	n := vChoose("entries", maxN+1)
	var entries []model.BundleEntry
	size := map[string]uint64{}
	for i := 0; i < n; i++ {
		k := vChoose("pick", len(rest))
		p := rest[k]
		rest = append(rest[:k], rest[k+1:]...)
		sz := uint64(vInt("size", 0, 1<<30))
		size[p] = sz
		entries = append(entries, model.BundleEntry{NameWithPath: p, Hash: vHex(i + 1), Size: sz})
	}
	fs := vMountRO(entries)
	ctx := context.Background()
	// expected tree
	dirs := map[string]bool{"": true}
	for p := range size {
		parts := strings.Split(p, "/")
		for i := 1; i < len(parts); i++ {
			dirs[strings.Join(parts[:i], "/")] = true
			vCover("implied-directories")
		}
		if len(parts) == 3 {
			vCover("nested")
		}
	}
	children := func(d string) map[string]bool {
		out := map[string]bool{}
		add := func(p string) {
			parent := ""
			if i := strings.LastIndex(p, "/"); i >= 0 {
				parent = p[:i]
				p = p[i+1:]
			}
			if parent == d {
				out[p] = true
			}
		}
		for p := range size {
			add(p)
		}
		for p := range dirs {
			if p != "" {
				add(p)
			}
		}
		return out
	}
	// resolve every expected path by successive lookups
	inodes := map[string]fuseops.InodeID{"": fuseops.RootInodeID}
	resolve := func(p string) (fuseops.InodeID, fuseops.InodeAttributes, bool) {
		cur := fuseops.InodeID(fuseops.RootInodeID)
		var attrs fuseops.InodeAttributes
		for _, part := range strings.Split(p, "/") {
			op := &fuseops.LookUpInodeOp{Parent: cur, Name: part}
			if err := fs.LookUpInode(ctx, op); err != nil {
				return 0, attrs, false
			}
			cur = op.Entry.Child
			attrs = op.Entry.Attributes
		}
		return cur, attrs, true
	}
	for p, sz := range size {
		ino, attrs, ok := resolve(p)
		vAssert(ok, "every-bundle-entry-is-reachable")
		vAssert(attrs.Size == sz && !attrs.Mode.IsDir(), "file-attributes-match-the-entry")
		inodes[p] = ino
		ga := &fuseops.GetInodeAttributesOp{Inode: ino}
		vAssert(fs.GetInodeAttributes(ctx, ga) == nil && ga.Attributes.Size == sz && !ga.Attributes.Mode.IsDir(), "getattr-agrees-with-lookup")
	}
	for d := range dirs {
		if d == "" {
			continue
		}
		ino, attrs, ok := resolve(d)
		vAssert(ok && attrs.Mode.IsDir(), "implied-directory-is-reachable-as-a-directory")
		inodes[d] = ino
	}
	// inode numbers are distinct
	seen := map[fuseops.InodeID]string{}
	for p, ino := range inodes {
		q, dup := seen[ino]
		vAssert(!dup, "inode-numbers-are-distinct")
		_ = q
		seen[ino] = p
	}
	// nothing else: names outside the tree do not resolve, and each listing is exactly the children
	for d := range dirs {
		want := children(d)
		recs := vReadDirAll(fs, inodes[d])
		vAssert(len(recs) == len(want), "listing-has-exactly-the-children")
		got := map[string]bool{}
		for i, r := range recs {
			vAssert(want[r.name], "listed-name-is-a-child")
			vAssert(!got[r.name], "child-listed-once")
			got[r.name] = true
			vAssert(r.off == uint64(i+1), "dirent-offsets-count-up")
			child := r.name
			if d != "" {
				child = d + "/" + r.name
			}
			vAssert(fuseops.InodeID(r.ino) == inodes[child], "dirent-inode-matches-lookup")
		}
		for _, absent := range []string{"zz", "e", "a", "b"} {
			if !want[absent] {
				op := &fuseops.LookUpInodeOp{Parent: inodes[d], Name: absent}
				vAssert(fs.LookUpInode(ctx, op) != nil, "names-outside-the-bundle-do-not-resolve")
			}
		}
		od := &fuseops.OpenDirOp{Inode: inodes[d]}
		vAssert(fs.OpenDir(ctx, od) == nil, "directory-opens")
	}
	for p := range size {
		od := &fuseops.OpenDirOp{Inode: inodes[p]}
		vAssert(fs.OpenDir(ctx, od) != nil, "a-file-does-not-open-as-a-directory")
	}
}

// VerifC17ReadDirResume: a listing resumed at the returned offsets yields every child exactly once, for every buffer size.
func VerifC17ReadDirResume() {
	vBudget(100000000)
	vUnwind(100000)
	names := []string{"x", "longer-name-17ch..", "mid-name9", "y"}
	n := vChoose("children", 4) + 1
	var entries []model.BundleEntry
	for i := 0; i < n; i++ {
		entries = append(entries, model.BundleEntry{NameWithPath: "d/" + names[i], Hash: vHex(i + 1), Size: 1})
	}
	fs := vMountRO(entries)
	ctx := context.Background()
	lk := &fuseops.LookUpInodeOp{Parent: fuseops.RootInodeID, Name: "d"}
	vAssert(fs.LookUpInode(ctx, lk) == nil, "lookup-d")
	dir := lk.Entry.Child
	// buffer: from exactly the largest single record (48 bytes) up to everything
	bufSize := 48 + 8*vChoose("bufExtra", 16)
	if bufSize < 24*n+64 {
		vCover("small-buffer")
	}
	var got []string
	off := fuseops.DirOffset(0)
	for round := 0; round < n+2; round++ {
		op := &fuseops.ReadDirOp{Inode: dir, Offset: off, Dst: make([]byte, bufSize)}
		vAssert(fs.ReadDir(ctx, op) == nil, "readdir")
		recs := vParseDirents(op.Dst[:op.BytesRead])
		if len(recs) == 0 {
			break
		}
		if round > 0 {
			vCover("resumed")
		}
		for _, r := range recs {
			got = append(got, r.name)
			off = fuseops.DirOffset(r.off)
		}
	}
	vAssert(len(got) == n, "resumed-listing-yields-every-child-once")
	for i := range got {
		if i < n {
			vAssert(got[i] == names[i], "children-in-order-without-gaps-or-repeats")
		}
	}
	// a listing started exactly at the end yields nothing
	op := &fuseops.ReadDirOp{Inode: dir, Offset: fuseops.DirOffset(n), Dst: make([]byte, bufSize)}
	vAssert(fs.ReadDir(ctx, op) == nil && op.BytesRead == 0, "offset-at-the-end-yields-nothing")
	// any start offset yields exactly the remaining children
	start := vChoose("start", n+1)
	op = &fuseops.ReadDirOp{Inode: dir, Offset: fuseops.DirOffset(start), Dst: make([]byte, 4096)}
	vAssert(fs.ReadDir(ctx, op) == nil, "readdir-at-offset")
	recs := vParseDirents(op.Dst[:op.BytesRead])
	vAssert(len(recs) == n-start, "listing-from-an-offset-yields-the-remaining-children")
}

type vCafsRO struct{ objs map[string][]byte }

type vRA struct{ b []byte }

func (r *vRA) ReadAt(p []byte, off int64) (int, error) {
	if off >= int64(len(r.b)) {
		return 0, io.EOF
	}
	n := copy(p, r.b[off:])
	if n < len(p) {
		return n, io.EOF
	}
	return n, nil
}
func (r *vRA) Read(p []byte) (int, error) { return 0, io.EOF }
func (r *vRA) Close() error               { return nil }

func (c *vCafsRO) Get(ctx context.Context, k cafs.Key) (io.ReadCloser, error) {
	return &vRA{b: c.objs[k.String()]}, nil
}
func (c *vCafsRO) GetAt(ctx context.Context, k cafs.Key) (io.ReaderAt, error) {
	b, ok := c.objs[k.String()]
	if !ok {
		return nil, io.ErrUnexpectedEOF
	}
	return &vRA{b: b}, nil
}
func (c *vCafsRO) Put(context.Context, io.Reader) (cafs.PutRes, error) { return cafs.PutRes{}, nil }
func (c *vCafsRO) Delete(context.Context, cafs.Key) error             { return nil }
func (c *vCafsRO) Clear(context.Context) error                        { return nil }
func (c *vCafsRO) Keys(context.Context) ([]cafs.Key, error)           { return nil, nil }
func (c *vCafsRO) RootKeys(context.Context) ([]cafs.Key, error)       { return nil, nil }
func (c *vCafsRO) Has(context.Context, cafs.Key, ...cafs.HasOption) (bool, []cafs.Key, error) {
	return false, nil, nil
}
func (c *vCafsRO) GetAddressingScheme() string { return "blake" }

// VerifC17ReadFile: reading any file at any offset and length returns exactly the corresponding bytes, in both mount modes.
func VerifC17ReadFile() {
	vBudget(100000000)
	content := vBytes("c", 5)
	other := []byte("OTHER")
	entries := []model.BundleEntry{
		{NameWithPath: "d/f", Hash: vHex(1), Size: 5},
		{NameWithPath: "g", Hash: vHex(2), Size: 5},
	}
	fs := vMountRO(entries)
	ctx := context.Background()
	streamed := vChoose("streamed", 2) == 1
	if streamed {
		vCover("streamed")
		fs.streamed = true
		fs.cafs = &vCafsRO{objs: map[string][]byte{vHex(1): content, vHex(2): other}}
	} else {
		vCover("pre-downloaded")
		st := newVStore("consumable")
		st.putRaw("d/f", content)
		st.putRaw("g", other)
		fs.bundle.ConsumableStore = st
	}
	lk := &fuseops.LookUpInodeOp{Parent: fuseops.RootInodeID, Name: "d"}
	vAssert(fs.LookUpInode(ctx, lk) == nil, "lookup-d")
	lf := &fuseops.LookUpInodeOp{Parent: lk.Entry.Child, Name: "f"}
	vAssert(fs.LookUpInode(ctx, lf) == nil, "lookup-f")
	off := vChoose("offset", 7)
	ln := vChoose("length", 7)
	op := &fuseops.ReadFileOp{Inode: lf.Entry.Child, Offset: int64(off), Dst: make([]byte, ln)}
	faulty := false
	if st, ok := fs.bundle.ConsumableStore.(*vStore); ok && !streamed && vChoose("storeReadFails", 2) == 1 {
		// the store holding the pre-downloaded files fails this read
		faulty = true
		vCover("pre-downloaded-read-fails")
		st.fail = func(op, key string) error {
			if op == "get" || op == "getat" {
				return errVFault
			}
			return nil
		}
	}
	err := fs.ReadFile(ctx, op)
	if faulty && err != nil {
		return // reported
	}
	vAssert(err == nil, "read-succeeds")
	want := 0
	if off < 5 {
		want = 5 - off
		if want > ln {
			want = ln
		}
	} else {
		vCover("past-eof")
	}
	vAssert(op.BytesRead == want, "read-returns-min-of-asked-and-remaining")
	if op.BytesRead == want && want > 0 {
		vAssert(vBytesEqual(op.Dst[:want], content[off:off+want]), "read-returns-the-files-bytes-at-that-offset")
	}
}

// VerifC17ReadStreamedReal: a streamed mount reads files through a fresh instance of the real content store:
// every read returns exactly the file's bytes at that offset (nothing past the end), for empty, one-leaf and
// two-leaf files; when the store cuts the transfer of a leaf the read fails instead of returning a short result.
func VerifC17ReadStreamedReal() {
	vBudget(300000000)
	vUnwind(100000)
	n := []int{0, 5, 70}[vChoose("fileLength", 3)]
	content := make([]byte, n)
	for i := range content {
		content[i] = byte(17*i + 3)
	}
	for _, p := range []int{0, 4, 64} {
		if p < n {
			content[p] = vByte("c", 0, 255)
		}
	}
	switch n {
	case 0:
		vCover("empty-file")
	case 70:
		vCover("two-leaves")
	}
	ctx := context.Background()
	store := newVStore("blob")
	w, err := cafs.New(cafs.LeafSize(64), cafs.Backend(store), cafs.Logger(zap.NewNop()))
	vAssert(err == nil, "cafs")
	res, err := w.Put(ctx, strings.NewReader(string(content)))
	vAssert(err == nil, "put")
	rootPath := ""
	for _, k := range store.keys {
		if len(store.data[k]) >= 64 && vBytesEqual(store.data[k][len(store.data[k])-64:], res.Key[:]) {
			rootPath = k
		}
	}
	entries := []model.BundleEntry{{NameWithPath: "d/f", Hash: res.Key.String(), Size: uint64(n)}}
	fs := vMountRO(entries)
	fs.streamed = true
	fs.cafs, err = cafs.New(cafs.LeafSize(64), cafs.Backend(store), cafs.Logger(zap.NewNop()))
	vAssert(err == nil, "cafs")
	faulty := n > 0 && vChoose("leafFetchFails", 2) == 1
	if faulty {
		vCover("leaf-fetch-fails")
		store.fail = func(op, key string) error {
			if op == "get" && key != rootPath {
				return io.ErrUnexpectedEOF
			}
			return nil
		}
	}
	lk := &fuseops.LookUpInodeOp{Parent: fuseops.RootInodeID, Name: "d"}
	vAssert(fs.LookUpInode(ctx, lk) == nil, "lookup-d")
	lf := &fuseops.LookUpInodeOp{Parent: lk.Entry.Child, Name: "f"}
	vAssert(fs.LookUpInode(ctx, lf) == nil, "lookup-f")
	off := []int{0, 3, 62, 64, 69, 70, 100}[vChoose("offset", 7)]
	ln := []int{0, 4, 8, 80}[vChoose("length", 4)]
	op := &fuseops.ReadFileOp{Inode: lf.Entry.Child, Offset: int64(off), Dst: make([]byte, ln)}
	err = fs.ReadFile(ctx, op)
	want := 0
	if off < n {
		want = n - off
		if want > ln {
			want = ln
		}
	} else {
		vCover("past-eof")
	}
	if faulty {
		// a failed read is fine; a successful one must be complete and right
		if err != nil {
			return
		}
	} else {
		vAssert(err == nil, "read-succeeds")
	}
	vAssert(op.BytesRead == want, "read-returns-min-of-asked-and-remaining")
	if op.BytesRead == want && want > 0 {
		vAssert(vBytesEqual(op.Dst[:want], content[off:off+want]), "read-returns-the-files-bytes-at-that-offset")
	}
}
